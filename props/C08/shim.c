/* C08 shim: builds an option table and an argv from the harness' description, runs spifopt_parse and
 * reports every target, the abstract-handler log and argv afterwards.  Every target and every argv word is
 * its own exact-size heap block; argv has exactly argc+1 slots. */
#include "config.h"
#include <libast.h>
#include <setjmp.h>

#define MAXOPT 16
#define MAXARG 512
static spifopt_t *table;          /* exact-size heap table */
static int nopt;
static int kind_of[MAXOPT];
static void *target[MAXOPT];      /* bool: unsigned long*, int: int*, str: char**, args: char***; abstract: NULL */
static unsigned long init_val[MAXOPT];
static char *longnames[MAXOPT];
static char **argv_;              /* the vector handed to the parser */
static char *orig[MAXARG];        /* the original word pointers */
static int argc_;
static struct { int opt; char *val; int isnull; } calls[256];
static int ncalls;
static jmp_buf help_jmp;
static int help_called;

static void log_call(int k, spif_charptr_t v)
{
    if (ncalls < 256) { calls[ncalls].opt = k; calls[ncalls].isnull = (v == NULL); calls[ncalls].val = v ? strdup((char *) v) : NULL; ncalls++; }
}
#define H(n) static void h##n(spif_charptr_t v) { log_call(n, v); }
H(0) H(1) H(2) H(3) H(4) H(5) H(6) H(7) H(8) H(9) H(10) H(11) H(12) H(13) H(14) H(15)
static spifopt_abstract_handler_t handlers[MAXOPT] = {h0, h1, h2, h3, h4, h5, h6, h7, h8, h9, h10, h11, h12, h13, h14, h15};
static void help_handler(void) { help_called++; longjmp(help_jmp, 1); }   /* documented: the help handler does not return */

int c08_reset(void)
{
    libast_debug_level = 0;
    nopt = 0; ncalls = 0; argc_ = 0; help_called = 0;
    table = NULL; argv_ = NULL;
    memset(&spifopt_settings, 0, sizeof(spifopt_settings));
    return 1;
}
/* kind: 0 BOOL 1 INT 2 STR 3 ARGS 4 ABST */
int c08_add_opt(int kind, int shortc, const char *longname, int pp, unsigned mask, unsigned long init)
{
    int k = nopt;
    spifopt_t o;
    if (nopt >= MAXOPT) return -1;
    longnames[k] = strdup(longname);
    kind_of[k] = kind;
    init_val[k] = init;
    memset(&o, 0, sizeof(o));
    o.short_opt = (spif_char_t) shortc;
    o.long_opt = (spif_charptr_t) longnames[k];
    o.desc = (spif_charptr_t) "generated";
    o.mask = 0;
    switch (kind) {
    case 0: target[k] = malloc(sizeof(unsigned long)); *(unsigned long *) target[k] = init; o.flags = SPIFOPT_FLAG_BOOLEAN; o.mask = mask; break;
    case 1: target[k] = malloc(sizeof(int)); *(int *) target[k] = (int) init; o.flags = SPIFOPT_FLAG_INTEGER; break;
    case 2: target[k] = malloc(sizeof(char *)); *(char **) target[k] = NULL; o.flags = SPIFOPT_FLAG_STRING; break;
    case 3: target[k] = malloc(sizeof(char **)); *(char ***) target[k] = NULL; o.flags = SPIFOPT_FLAG_ARGLIST; break;
    default: target[k] = NULL; o.flags = SPIFOPT_FLAG_ABSTRACT; break;
    }
    o.value = kind == 4 ? (void *) handlers[k] : target[k];
    if (pp) o.flags |= SPIFOPT_FLAG_PREPARSE;
    table = (spifopt_t *) realloc(table, sizeof(spifopt_t) * (size_t) (nopt + 1));
    table[nopt++] = o;
    return k;
}
/* deliberately break one table entry for the arbitrary-input mode: NULL target (the parser must skip it) */
int c08_null_target(int k) { if (k < 0 || k >= nopt) return 0; table[k].value = NULL; return 1; }
int c08_set_argv(int n, const char *packed)
{
    int i;
    const char *p = packed;
    if (n >= MAXARG) return 0;
    argv_ = (char **) malloc(sizeof(char *) * (size_t) (n + 1));
    for (i = 0; i < n; i++) { size_t l = strlen(p); orig[i] = (char *) malloc(l + 1); memcpy(orig[i], p, l + 1); argv_[i] = orig[i]; p += l + 1; }
    argv_[n] = NULL;
    argc_ = n;
    return 1;
}
int c08_set_flags(int pp, int remove_args, int allow_bad)
{
    SPIFOPT_OPTLIST_SET(table);
    SPIFOPT_NUMOPTS_SET(nopt);
    SPIFOPT_ALLOWBAD_SET(allow_bad);
    SPIFOPT_HELPHANDLER_SET(help_handler);
    if (pp) SPIFOPT_FLAGS_SET(SPIFOPT_SETTING_PREPARSE);
    if (remove_args) SPIFOPT_FLAGS_SET(SPIFOPT_SETTING_REMOVE_ARGS);
    return 1;
}
/* one pass; returns 0 when the parser returned, 1 when it left through the help handler */
int c08_parse(void)
{
    if (setjmp(help_jmp)) return 1;
    spifopt_parse(argc_, argv_);
    return 0;
}
unsigned long c08_bool(int k) { return *(unsigned long *) target[k]; }
int c08_int(int k) { return *(int *) target[k]; }
const char *c08_str(int k) { return *(char **) target[k]; }
int c08_args_n(int k) { char **l = *(char ***) target[k]; int n = 0; if (!l) return -1; while (l[n] && n < 100000) n++; return n; }
const char *c08_args(int k, int i) { return (*(char ***) target[k])[i]; }
int c08_ncalls(void) { return ncalls; }
int c08_call_opt(int c) { return calls[c].opt; }
const char *c08_call_val(int c) { return calls[c].val; }
int c08_badopts(void) { return (int) SPIFOPT_BADOPTS_GET(); }
int c08_flags(void) { return (int) SPIFOPT_FLAGS_GET(); }
int c08_help_called(void) { return help_called; }
/* argv after the call: slot i (0..argc) -> index of the original word it points at, -1 NULL, -2 foreign pointer */
int c08_argv_slot(int i)
{
    int j;
    if (i < 0 || i > argc_) return -2;
    if (!argv_[i]) return -1;
    for (j = 0; j < argc_; j++) if (argv_[i] == orig[j]) return j;
    return -2;
}
/* the words themselves must be untouched */
int c08_word_intact(int j, const char *w) { return strcmp(orig[j], w) == 0; }
