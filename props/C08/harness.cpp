// C08 - the option parser assigns exactly what the command line says and nothing else.
// Mode "sentence": constructive generator (option table + intent list -> rendered argv) with an exact
// oracle that needs no reference parser.  Mode "arb": arbitrary argument vectors, safety oracle.
#include "../../engine/rcglue.hpp"
#include "../../engine/latrack.hpp"
#include <strings.h>

extern "C" {
int c08_reset(void); int c08_add_opt(int, int, const char *, int, unsigned, unsigned long); int c08_null_target(int);
int c08_set_argv(int, const char *); int c08_set_flags(int, int, int); int c08_parse(void);
unsigned long c08_bool(int); int c08_int(int); const char *c08_str(int); int c08_args_n(int); const char *c08_args(int, int);
int c08_ncalls(void); int c08_call_opt(int); const char *c08_call_val(int); int c08_badopts(void); int c08_flags(void); int c08_help_called(void);
int c08_argv_slot(int); int c08_word_intact(int, const char *);
}
using namespace vt;
namespace {
enum { BOOL = 0, INT = 1, STR = 2, ARGS = 3, ABST = 4 };
const char *kKind[] = {"BOOLEAN", "INTEGER", "STRING", "ARGLIST", "ABSTRACT"};
const std::vector<std::string> kLong = {"alpha", "beta", "colour", "debug", "exec", "file", "geom", "help-me", "input", "join", "keep", "level", "al", "file2"};
const std::string kShort = "abcdefgijklmnpqrstuvwxyzABCDEF0123456789";
const char *kBoolWords[] = {"1", "on", "true", "yes", "0", "off", "false", "no"};
bool is_bool_word(const std::string &w) { for (auto b : kBoolWords) if (!strcasecmp(w.c_str(), b)) return true; return false; }
bool bool_word_value(const std::string &w) { for (int i = 0; i < 4; i++) if (!strcasecmp(w.c_str(), kBoolWords[i])) return true; return false; }

struct Opt { int kind; char sc; std::string lname; bool pp; unsigned mask; unsigned long init; };

// ---------------------------------------------------------------- expected state
struct Expect {
    std::vector<unsigned long> b;
    std::vector<long> iv;
    std::vector<std::pair<bool, std::string>> sv;             // (set?, value)
    std::vector<std::pair<bool, std::vector<std::string>>> av; // (set?, list)
    std::vector<std::pair<int, std::pair<bool, std::string>>> calls;   // (opt, (isnull, value))
};

struct Interp {
    Ctx &ctx;
    std::vector<Opt> opts;
    explicit Interp(Ctx &c) : ctx(c) {}

    // ---- table from ops, kept sound (distinct names / letters, at most one ARGLIST)
    void build_table(const Case &c) {
        std::set<char> used_short;
        std::set<std::string> used_long;
        bool have_args = false;
        for (auto &op : c) {
            if (op.name != "opt" || opts.size() >= 10) continue;
            Opt o;
            o.kind = (int)(((op.i(0) % 5) + 5) % 5);
            if (o.kind == ARGS) { if (have_args) o.kind = STR; else have_args = true; }
            long si = op.i(1);
            o.sc = si < 0 ? 0 : kShort[(size_t)(si % (long)kShort.size())];
            if (o.sc && !used_short.insert(o.sc).second) o.sc = 0;
            size_t li = (size_t)(((op.i(2) % (long)kLong.size()) + (long)kLong.size()) % (long)kLong.size());
            while (used_long.count(kLong[li])) li = (li + 1) % kLong.size();
            o.lname = kLong[li];
            used_long.insert(o.lname);
            o.pp = op.i(3) == 1;
            static const unsigned masks[] = {0x1, 0x2, 0x4, 0x8, 0x10, 0x100, 0x8000, 0x80000000u, 0x6, 0x30};
            o.mask = masks[opts.size() % 10];
            o.init = (unsigned long)op.i(4);
            if (o.kind == BOOL) o.init = (unsigned long)op.i(4) * 0x9e3779b97f4a7c15ULL;   // guard bits everywhere
            opts.push_back(o);
        }
        if (opts.empty()) { opts.push_back({BOOL, 'a', "alpha", false, 1, 0xdeadbeefcafe0000ULL}); }
        for (size_t k = 0; k < opts.size(); k++) LA(c08_add_opt(opts[k].kind, opts[k].sc, opts[k].lname.c_str(), opts[k].pp, opts[k].mask, opts[k].init));
    }

    // =================================================================== mode "sentence"
    void run_sentence(const Case &c) {
        c08_reset();
        build_table(c);
        int set_pp = 0, set_rm = 0;
        for (auto &op : c) if (op.name == "settings") { set_pp = (int)(op.i(0) & 1); set_rm = (int)(op.i(1) & 1); }
        // ---- render the intent list
        std::vector<std::string> argv = {"prog"};
        std::vector<std::string> words;            // expected non-option words, in order
        struct Use { int opt; bool has_val; std::string val; bool bool_val; std::vector<std::string> list; };
        std::vector<Use> uses;                     // in command-line order
        enum Prev { P_NONE, P_BOOL_NOVAL, P_ABST_NOVAL, P_OTHER } prev = P_NONE;
        bool ended = false;
        int nuses = 0;
        std::set<int> spellings_seen;
        size_t pending_abst = (size_t)-1;           // index in argv of an abstract option rendered without value
        auto fix_pending = [&](bool next_is_option) {
            // an abstract option without a value must be followed by a valid option or the end of argv
            if (pending_abst != (size_t)-1 && !next_is_option) {
                // give it a value after all: append "=v" / "v" is not possible for every spelling, so add a value word
                argv.insert(argv.begin() + (long)pending_abst + 1, "val");
                uses[uses.size() - 1].has_val = true; uses[uses.size() - 1].val = "val";
            }
            pending_abst = (size_t)-1;
        };
        for (size_t at = 0; at < c.size() && !ended; at++) {
            const Op &op = c[at];
            if (op.name == "word") {
                std::string w = op.s(0);
                if (w.empty()) w = "w";
                if (w[0] == '-') w = "w" + w;
                if (prev == P_BOOL_NOVAL && is_bool_word(w)) w += "_";
                fix_pending(false);
                argv.push_back(w);
                words.push_back(w);
                prev = P_OTHER;
                ctx.label("intent:non-option-word");
                continue;
            }
            if (op.name == "bundle") {
                // booleans with short forms, optionally closed by a value option (inline or separate value)
                std::string letters;
                std::vector<int> members;
                for (size_t k = 0; k + 1 < op.ints.size() || (k < op.ints.size() && op.strs.empty()); k++) {
                    int oi = (int)(((op.ints[k] % (long)opts.size()) + (long)opts.size()) % (long)opts.size());
                    if (opts[(size_t)oi].kind == BOOL && opts[(size_t)oi].sc) { letters.push_back(opts[(size_t)oi].sc); members.push_back(oi); }
                }
                int closer = -1;
                if (!op.strs.empty() && !op.ints.empty()) {
                    int oi = (int)(((op.ints.back() % (long)opts.size()) + (long)opts.size()) % (long)opts.size());
                    if ((opts[(size_t)oi].kind == INT || opts[(size_t)oi].kind == STR) && opts[(size_t)oi].sc) closer = oi;
                }
                if (letters.empty() && closer < 0) continue;
                // the letters after a boolean must not spell a boolean word (-aon would read as "-a on")
                for (bool again = true; again;) {
                    again = false;
                    for (size_t k = 1; k < letters.size(); k++) if (is_bool_word(letters.substr(k))) { letters.resize(k); members.resize(k); closer = -1; again = true; break; }
                }
                fix_pending(true);
                std::string word = "-" + letters;
                std::string cv;
                bool inline_v = false;
                if (closer >= 0) {
                    cv = opts[(size_t)closer].kind == INT ? std::to_string(op.i(op.ints.size() - 2, 7) % 100000) : op.s(0);
                    inline_v = (op.i(0) & 1) && !cv.empty();
                    // what follows a boolean letter inside the word must never read as a boolean word ("-a0" is "-a 0")
                    std::string full = word + std::string(1, opts[(size_t)closer].sc) + (inline_v ? cv : "");
                    bool clash = false;
                    for (size_t p2 = 1; p2 <= letters.size(); p2++) if (is_bool_word(full.substr(p2 + 1))) clash = true;
                    if (clash && inline_v) { inline_v = false; full = word + std::string(1, opts[(size_t)closer].sc); clash = false; for (size_t p2 = 1; p2 <= letters.size(); p2++) if (is_bool_word(full.substr(p2 + 1))) clash = true; }
                    if (clash) closer = -1;
                }
                if (letters.empty() && closer < 0) continue;
                for (int m : members) uses.push_back({m, false, "", true, {}});
                if (closer >= 0) {
                    word.push_back(opts[(size_t)closer].sc);
                    if (inline_v) { word += cv; argv.push_back(word); } else { argv.push_back(word); argv.push_back(cv); }
                    uses.push_back({closer, true, cv, false, {}});
                    prev = P_OTHER;
                    ctx.label("spelling:bundle-ending-in-value-option");
                } else { argv.push_back(word); prev = P_BOOL_NOVAL; ctx.label(letters.size() > 1 ? "spelling:bundle" : "spelling:-x"); }
                nuses += (int)members.size() + (closer >= 0);
                spellings_seen.insert(10);
                continue;
            }
            if (op.name != "use") continue;
            int oi = (int)(((op.i(0) % (long)opts.size()) + (long)opts.size()) % (long)opts.size());
            const Opt &o = opts[(size_t)oi];
            int sp = (int)(((op.i(1) % 6) + 6) % 6);   // 0 -x | 1 -xVALUE | 2 -x VALUE | 3 --long | 4 --long=VALUE | 5 --long VALUE
            if (!o.sc && sp <= 2) sp += 3;
            std::string v = op.s(0);
            Use u{oi, false, "", true, {}};
            switch (o.kind) {
            case BOOL:
                if (sp == 1 || sp == 2) sp = 0;
                if (sp == 4 || sp == 5) { u.has_val = true; u.val = kBoolWords[((op.i(2) % 8) + 8) % 8]; u.bool_val = bool_word_value(u.val); }
                break;
            case INT:
                if (sp == 0) sp = 2;
                if (sp == 3) sp = 5;
                { long n = op.i(2); static const char *fmts[] = {"%ld", "%ld", "0x%lx", "-%ld"}; char b[40]; int f = (int)(((op.i(3) % 4) + 4) % 4); snprintf(b, sizeof b, fmts[f], n < 0 ? -n : n); v = b; }
                u.has_val = true; u.val = v;
                break;
            case STR:
                if (sp == 0) sp = 2;
                if (sp == 3) sp = 5;
                if (sp == 1 && v.empty()) sp = 2;
                u.has_val = true; u.val = v;
                break;
            case ABST:
                if (!v.empty() && v[0] == '-') v = "v" + v;
                if (sp == 1 && v.empty()) sp = 0;
                if (sp == 0 || sp == 3) { u.has_val = false; }
                else { u.has_val = true; u.val = v; }
                break;
            case ARGS: {
                // the swallowing spelling ends the sentence; a pre-parse arglist only uses the '=' spelling
                std::vector<std::string> l;
                for (auto &s : op.strs) { std::string w; for (char ch : s) if (isalnum((unsigned char)ch)) w.push_back(ch); if (w.empty()) w = "x"; l.push_back(w); }
                if (l.empty()) l.push_back("cmd");
                if (l.size() > 6) l.resize(6);
                u.has_val = true; u.list = l;
                if (sp == 4 || o.pp) sp = 4; else if (sp <= 2) sp = 2; else sp = 5;
                break;
            }
            }
            fix_pending(true);
            // render
            std::string sw = std::string("-") + o.sc, lw = "--" + o.lname;
            if (o.kind == ARGS) {
                if (sp == 4) { long ws = op.i(2); std::string j; if (ws & 2) j += " "; for (size_t k = 0; k < u.list.size(); k++) { if (k) j += (ws & 4) ? "  " : " "; j += u.list[k]; } if (ws & 1) j += " "; if (ws & 7) ctx.label("spelling:--exec= with leading/trailing/double blanks");   /* white space around the words of the value adds no word */ argv.push_back(lw + "=" + j); ctx.label("spelling:--exec=\"w1 w2\""); prev = P_OTHER; }
                else { argv.push_back(sp == 2 ? sw : lw); for (auto &w : u.list) argv.push_back(w); ended = true; ctx.label("spelling:arglist-swallows-rest"); }
            } else switch (sp) {
                case 0: argv.push_back(sw); prev = o.kind == BOOL ? P_BOOL_NOVAL : P_ABST_NOVAL; if (o.kind == ABST) pending_abst = argv.size() - 1; ctx.label("spelling:-x"); break;
                case 1: argv.push_back(sw + u.val); prev = P_OTHER; ctx.label("spelling:-xVALUE"); break;
                case 2: argv.push_back(sw); argv.push_back(u.val); prev = P_OTHER; ctx.label("spelling:-x VALUE"); break;
                case 3: argv.push_back(lw); prev = o.kind == BOOL ? P_BOOL_NOVAL : P_ABST_NOVAL; if (o.kind == ABST) pending_abst = argv.size() - 1; ctx.label("spelling:--long"); break;
                case 4: argv.push_back(lw + "=" + u.val); prev = P_OTHER; ctx.label(o.kind == BOOL ? "spelling:--long=<boolean word>" : "spelling:--long=VALUE"); break;
                default: argv.push_back(lw); argv.push_back(u.val); prev = P_OTHER; ctx.label(o.kind == BOOL ? "spelling:--long <boolean word>" : "spelling:--long VALUE"); break;
            }
            ctx.label(std::string("kind:") + kKind[o.kind] + (o.pp ? ":preparse" : ""));
            uses.push_back(u);
            spellings_seen.insert(sp);
            nuses++;
        }
        if (argv.size() < 2) { argv.push_back("lonely"); words.push_back("lonely"); }   // the parser requires argc > 1
        // an abstract option still pending at the end of argv is fine (val_ptr stays NULL)

        // ---- expected outcome per pass
        auto apply = [&](Expect &e, bool pp_pass) {
            for (auto &u : uses) {
                const Opt &o = opts[(size_t)u.opt];
                if (o.pp != pp_pass) continue;
                switch (o.kind) {
                case BOOL: if (u.bool_val) e.b[(size_t)u.opt] |= o.mask; else e.b[(size_t)u.opt] &= ~(unsigned long)o.mask; break;
                case INT: e.iv[(size_t)u.opt] = (long)(int)strtol(u.val.c_str(), nullptr, 0); break;
                case STR: e.sv[(size_t)u.opt] = {true, u.val}; break;
                case ARGS: e.av[(size_t)u.opt] = {true, u.list}; break;
                default: e.calls.push_back({u.opt, {!u.has_val, u.val}}); break;
                }
            }
        };
        Expect e;
        for (auto &o : opts) { e.b.push_back(o.init); e.iv.push_back((long)(int)o.init); e.sv.push_back({false, ""}); e.av.push_back({false, {}}); }

        // ---- run
        std::string packed;
        for (auto &w : argv) { packed += w; packed.push_back('\0'); }
        LA(c08_set_argv((int)argv.size(), packed.data()));
        LA(c08_set_flags(set_pp, set_rm, 0));
        ctx.label(std::string("settings:") + (set_pp ? "preparse" : "no-preparse") + "+" + (set_rm ? "remove-args" : "keep-args"));
        std::string sentence;
        for (auto &w : argv) sentence += "[" + printable(w, 30) + "]";
        if (set_pp) {
            int r = LA(c08_parse());
            VT_CHECK(ctx, r == 0, "mismatch", "bad-option-reported; the pre-parse pass left through the help handler on a well-formed sentence " << sentence);
            apply(e, true);
            compare(e, sentence, "after the pre-parse pass");
            VT_CHECK(ctx, (c08_flags() & 1) == 0, "mismatch", "preparse-flag-not-cleared; the PREPARSE setting is still set after the pre-parse pass");
            for (int i = 0; i <= (int)argv.size(); i++) VT_CHECK(ctx, c08_argv_slot(i) == (i < (int)argv.size() ? i : -1), "mismatch", "preparse-touched-argv; the pre-parse pass changed argv[" << i << "] " << sentence);
        }
        int r = LA(c08_parse());
        VT_CHECK(ctx, r == 0, "mismatch", "bad-option-reported; the parser left through the help handler on a well-formed sentence " << sentence);
        apply(e, false);
        compare(e, sentence, set_pp ? "after the normal pass" : "after the only pass");
        VT_CHECK(ctx, c08_badopts() == 0, "mismatch", "bad-option-counted; BADOPTS=" << c08_badopts() << " for the well-formed sentence " << sentence);
        // ---- argv afterwards
        for (size_t j = 0; j < argv.size(); j++) VT_CHECK(ctx, c08_word_intact((int)j, argv[j].c_str()), "mismatch", "word-modified; argv word " << j << " was changed " << sentence);
        if (set_rm) {
            // exactly: prog, the non-option words in order, NULL
            std::vector<int> want_idx = {0};
            { size_t wi = 0; for (size_t j = 1; j < argv.size() && wi < words.size(); j++) if (argv[j] == words[wi] && is_word_position(j)) { want_idx.push_back((int)j); wi++; } }
            std::string got;
            for (int i = 0; i <= (int)argv.size(); i++) { int s = c08_argv_slot(i); got += s == -1 ? "~ " : (s == -2 ? "? " : argv[(size_t)s] + " "); if (s == -1) break; }
            std::string want = "prog ";
            for (auto &w : words) want += w + " ";
            want += "~ ";
            VT_CHECK(ctx, got == want, "mismatch", "remove-args; argv afterwards is [" << got << "] expected [" << want << "] for " << sentence);
        } else {
            for (int i = 0; i <= (int)argv.size(); i++) VT_CHECK(ctx, c08_argv_slot(i) == (i < (int)argv.size() ? i : -1), "mismatch", "argv-touched; argv[" << i << "] changed although argument removal is off " << sentence);
        }
        // later occurrences override earlier ones?
        { std::map<int, int> cnt; for (auto &u : uses) cnt[u.opt]++; for (auto &kv : cnt) if (kv.second > 1 && opts[(size_t)kv.first].kind != ABST) { ctx.label("override-of-earlier-occurrence"); break; } }
        if (nuses >= 3 && spellings_seen.size() >= 2 && !words.empty()) ctx.nontrivial();
        ctx.ok();
    }
    bool is_word_position(size_t) { return true; }

    void compare(const Expect &e, const std::string &sentence, const char *when) {
        for (size_t k = 0; k < opts.size(); k++) {
            const Opt &o = opts[k];
            std::string id = std::string(kKind[o.kind]) + " option --" + o.lname + (o.pp ? " (pre-parse)" : "");
            switch (o.kind) {
            case BOOL: { unsigned long g = c08_bool((int)k); VT_CHECK(ctx, g == e.b[k], "mismatch", "target:BOOLEAN; " << id << " " << when << ": 0x" << std::hex << g << " expected 0x" << e.b[k] << " (mask 0x" << o.mask << std::dec << ") " << sentence); break; }
            case INT: { int g = c08_int((int)k); VT_CHECK(ctx, g == (int)e.iv[k], "mismatch", "target:INTEGER; " << id << " " << when << ": " << g << " expected " << e.iv[k] << " " << sentence); break; }
            case STR: {
                const char *g = c08_str((int)k);
                VT_CHECK(ctx, (g != nullptr) == e.sv[k].first, "mismatch", "target:STRING; " << id << " " << when << ": " << (g ? "set" : "unset") << " but expected " << (e.sv[k].first ? "set" : "unset") << " " << sentence);
                if (g) VT_CHECK(ctx, e.sv[k].second == g, "mismatch", "target:STRING; " << id << " " << when << ": \"" << printable(g) << "\" expected \"" << printable(e.sv[k].second) << "\" " << sentence);
                break;
            }
            case ARGS: {
                int n = c08_args_n((int)k);
                VT_CHECK(ctx, (n >= 0) == e.av[k].first, "mismatch", "target:ARGLIST; " << id << " " << when << ": " << (n >= 0 ? "set" : "unset") << " but expected " << (e.av[k].first ? "set" : "unset") << " " << sentence);
                if (n >= 0) {
                    std::vector<std::string> g;
                    for (int i = 0; i < n; i++) g.push_back(c08_args((int)k, i));
                    VT_CHECK(ctx, g == e.av[k].second, "mismatch", "target:ARGLIST; " << id << " " << when << ": " << g.size() << " words, expected " << e.av[k].second.size() << " " << sentence);
                }
                break;
            }
            default: break;
            }
        }
        int nc = c08_ncalls();
        VT_CHECK(ctx, nc == (int)e.calls.size(), "mismatch", "abstract-handler-calls; " << nc << " calls " << when << ", expected " << e.calls.size() << " " << sentence);
        for (int i = 0; i < nc; i++) {
            const char *v = c08_call_val(i);
            VT_CHECK(ctx, c08_call_opt(i) == e.calls[(size_t)i].first && (v == nullptr) == e.calls[(size_t)i].second.first && (!v || e.calls[(size_t)i].second.second == v), "mismatch",
                     "abstract-handler-call; call " << i << " " << when << " was (opt " << c08_call_opt(i) << ", " << (v ? v : "NULL") << ") expected (opt " << e.calls[(size_t)i].first << ", " << (e.calls[(size_t)i].second.first ? "NULL" : e.calls[(size_t)i].second.second) << ") " << sentence);
        }
    }

    // =================================================================== mode "arb"
    void run_arb(const Case &c) {
        c08_reset();
        build_table(c);
        std::vector<std::string> argv = {"prog"};
        int set_pp = 0, set_rm = 0, allow_bad = 0;
        for (auto &op : c) {
            if (op.name == "settings") { set_pp = (int)(op.i(0) & 1); set_rm = (int)(op.i(1) & 1); allow_bad = (int)(op.i(2) & 3); }
            if (op.name == "nulltarget") {   // only where the parser documents a check ("make sure we know what to do with the value")
                int k = (int)(((op.i(0) % (long)opts.size()) + (long)opts.size()) % (long)opts.size());
                if (opts[(size_t)k].kind != BOOL) { LA(c08_null_target(k)); ctx.label("table:value-option-without-target"); }
            }
            if (op.name == "arg" && argv.size() < 40) argv.push_back(op.s(0));
        }
        if (argv.size() < 2) argv.push_back("-");
        std::string packed, sentence;
        for (auto &w : argv) { packed += w; packed.push_back('\0'); sentence += "[" + printable(w, 24) + "]"; }
        LA(c08_set_argv((int)argv.size(), packed.data()));
        LA(c08_set_flags(set_pp, set_rm, allow_bad));
        int passes = set_pp ? 2 : 1;
        for (int p = 0; p < passes; p++) {
            int r = LA(c08_parse());
            if (r) { ctx.label("left-through-help-handler"); break; }
        }
        if (c08_badopts() > 0) ctx.label("bad-options-counted");
        // canaries: booleans may only differ from their initial value inside their mask
        for (size_t k = 0; k < opts.size(); k++) if (opts[k].kind == BOOL) {
            unsigned long g = c08_bool((int)k);
            VT_CHECK(ctx, ((g ^ opts[k].init) & ~(unsigned long)opts[k].mask) == 0, "mismatch", "boolean-touched-foreign-bits; --" << opts[k].lname << " 0x" << std::hex << g << " vs initial 0x" << opts[k].init << " mask 0x" << opts[k].mask << std::dec << " " << sentence);
        }
        // argv: every slot is NULL or one of the original pointers; with removal the survivors are a subsequence
        int last = 0;
        bool seen_null = false;
        for (int i = 0; i <= (int)argv.size(); i++) {
            int s = c08_argv_slot(i);
            VT_CHECK(ctx, s != -2, "mismatch", "argv-foreign-pointer; argv[" << i << "] is neither NULL nor an original word " << sentence);
            if (i == 0) VT_CHECK(ctx, s == 0, "mismatch", "argv0-changed; " << sentence);
            if (set_rm && !seen_null && i > 0) { if (s == -1) seen_null = true; else { VT_CHECK(ctx, s > last, "mismatch", "argv-not-a-subsequence; after removal argv[" << i << "] is original word " << s << " which does not follow word " << last << " " << sentence); last = s; } }
        }
        for (size_t j = 0; j < argv.size(); j++) VT_CHECK(ctx, c08_word_intact((int)j, argv[j].c_str()), "mismatch", "word-modified; argv word " << j << " was changed " << sentence);
        VT_CHECK(ctx, c08_argv_slot((int)argv.size()) == -1 || !set_rm, "mismatch", "argv-terminator; argv[argc] is no longer NULL " << sentence);
        if (argv.size() >= 4) ctx.nontrivial();
        ctx.ok();
    }
};

// ------------------------------------------------------------------ generators
rc::Gen<Op> gen_opt() {
    return rc::gen::exec([]() {
        return mk("opt", {*range(0, 9) < 4 ? 0 : *range(0, 4), *range(0, 5) == 0 ? -1 : *range(0, 39), *range(0, 13), *range(0, 3) == 0 ? 1 : 0, *range(0, 100000)});
    });
}
rc::Gen<std::string> gen_value() {
    return rc::gen::exec([]() {
        int k = (int)*range(0, 9);
        if (k == 0) return std::string();
        if (k == 1) return std::string("-v");
        if (k == 2) return std::string("--alpha");
        if (k == 3) return std::string(*rc::gen::elementOf(std::vector<std::string>{"on", "no", "1", "yes", "a b", "x=y", "=", "some file.txt"}));
        return *text_over("abcXYZ019._/:@ -", 14);
    });
}
rc::Gen<Case> gen_sentence() {
    return rc::gen::exec([]() {
        Case c;
        long no = *range(1, 10);
        for (long i = 0; i < no; i++) c.push_back(*gen_opt());
        c.push_back(mk("settings", {*range(0, 1), *range(0, 1)}));
        auto intents = *rc::gen::container<std::vector<Op>>(rc::gen::exec([]() {
            int k = (int)*range(0, 9);
            if (k < 3) { std::string w = *gen_value(); return mk("word", {}, {w}); }
            if (k < 5) {
                Op o = mk("bundle");
                long n = *range(1, 4);
                for (long i = 0; i < n; i++) o.ints.push_back(*range(0, 9));
                if (*range(0, 1)) { o.ints.push_back(*range(0, 99999)); o.ints.push_back(*range(0, 9)); o.strs.push_back(*gen_value()); }
                return o;
            }
            Op o = mk("use", {*range(0, 9), *range(0, 5), *range(0, 100000), *range(0, 3)}, {*gen_value()});
            long extra = *range(0, 3);
            for (long i = 0; i < extra; i++) o.strs.push_back(*text_over("abcxyz01", 6));
            return o;
        }));
        for (auto &o : intents) c.push_back(o);
        return c;
    });
}
rc::Gen<Case> gen_arb() {
    return rc::gen::exec([]() {
        Case c;
        long no = *range(1, 8);
        for (long i = 0; i < no; i++) c.push_back(*gen_opt());
        c.push_back(mk("settings", {*range(0, 1), *range(0, 1), *range(0, 3)}));
        if (*range(0, 5) == 0) c.push_back(mk("nulltarget", {*range(0, 9)}));
        static const std::vector<std::string> toks = {"-", "--", "-=", "--=x", "---", "-a", "-ab", "-abz", "-a=", "--alpha", "--alpha=", "--alpha=on", "--alpha=maybe", "--al", "--alp", "--exec", "--exec=", "--exec=a b",
            "--exec='a b' c", "--exec=\"a b", "--exec='", "--file", "--file=", "-f", "-e", "-e5", "--geom=0x", "--geom", "-g", "on", "no", "", " ", "word", "--nosuch", "-?", "-Z", "--beta=off", "--colour", "--colour=7", "-9", "--level=-3", "a b"};
        auto args = *rc::gen::container<std::vector<Op>>(rc::gen::exec([]() {
            int k = (int)*range(0, 9);
            std::string s;
            if (k < 6) s = *rc::gen::elementOf(toks);
            else if (k < 8) { s = std::string(*range(0, 1) ? "--" : "-") + *rc::gen::elementOf(kLong) + (*range(0, 1) ? "=" + *text_over("ab 01'\"\\", 6) : ""); }
            else s = *text_over("-=ab \"'\\xyz01", 8);
            return mk("arg", {}, {s});
        }));
        for (auto &a : args) c.push_back(a);
        return c;
    });
}
struct C08 : Harness {
    const char *property() const override { return "C08"; }
    const char *rule() const override { return ""; }
    std::vector<std::string> modes() const override { return {"sentence", "arb"}; }
    void run(const Case &c, Ctx &ctx) override {
        Interp in(ctx);
        bool arb = false;
        for (auto &op : c) if (op.name == "arg" || op.name == "nulltarget") arb = true;
        if (arb) in.run_arb(c); else in.run_sentence(c);
    }
    bool search(const std::string &mode, const std::function<bool(const Case &)> &try_case) override {
        if (mode == "arb") return rc_search("C08 arbitrary argument vectors (safety)", gen_arb(), try_case);
        return rc_search("C08 well-formed sentences (exact)", gen_sentence(), try_case);
    }
};
}  // namespace
vt::Harness *vt::make_harness() { return new C08(); }
