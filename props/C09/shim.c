/* C09 shim: config parser delivery order, through engine/confshim.inc */
#include "config.h"
#include <libast.h>
#include "confshim.inc"
