// C09 - the config parser delivers every line once, in order, to the innermost open context.
#include "../../engine/rcglue.hpp"
#include <dirent.h>
#include <unistd.h>
#include "../../engine/latrack.hpp"
#include <fstream>
#include <strings.h>
#include <unistd.h>
#include <sys/stat.h>

extern "C" {
int cf_names(const char *, const char *); int cf_init(void); int cf_free(void); void cf_reset_log(void); int cf_register(const char *, int); int cf_register_builtin(const char *);
int cf_parse(const char *, const char *, const char *); int cf_log_count(void); int cf_log_overflow(void); int cf_log_ctx(int); int cf_log_kind(int);
unsigned long cf_log_in(int); unsigned long cf_log_out(int); const char *cf_log_text(int); unsigned cf_stack(int); unsigned cf_fstate_idx(void); int cf_fd_census(void);
int cf_spawn_count(void);
}
using namespace vt;
namespace {
const std::vector<std::string> kCtx = {"main", "color", "attributes", "menu", "item", "toolkit", "misc", "imageclasses", "image", "actions", "keyboard", "xim",
                                       "toolbar", "toolbar_icons", "buttons_left", "buttons_right", "imageclass", "attributes2", "keyboard_shortcuts", "Main"};   // pairs sharing long prefixes / differing in case
const std::vector<std::string> kLookalike = {"beginning of it", "ending", "endx", "begin", "b", "e", "end-user", "ender 5", "be gin x", "en d"};
const char *kMagic = "<vtapp-1.2.3>";

struct Line { int kind; std::string raw; std::string name; std::string text; int inc; };   // kind: 0 skip 2 begin 3 end 4 include 5 text 7 directive
struct Entry { int ctx; int kind; unsigned long in, out; std::string text; };

struct Interp {
    Ctx &ctx;
    std::vector<std::vector<Line>> files{4};
    bool padded = false;
    std::vector<std::string> reg;   // registered context names in order (handler k = position)
    bool own_null = false;
    std::map<std::string, std::string> vars;
    explicit Interp(Ctx &c) : ctx(c) {}

    static std::string ws(long v, bool lead) { static const char *l[] = {"", "", " ", "\t", "   ", " \t "}; static const char *t[] = {"", "", " ", "\t", "  \t"}; return lead ? l[((v % 6) + 6) % 6] : t[((v % 5) + 5) % 5]; }
    static std::string clean(const std::string &s) { std::string o; for (char c : s) if (isalnum((unsigned char)c) || c == ' ' || c == '.' || c == '_' || c == '-' || c == '=' || c == ',' || c == ':' || c == '/') o.push_back(c); return o; }

    void add_line(const Op &op) {
        int f = (int)(((op.i(0) % 4) + 4) % 4), kind = (int)op.i(1);
        long a = op.i(2), b = op.i(3);
        Line l{0, "", "", "", -1};
        switch (kind) {
        case 0: l.raw = ws(a, true) + "#" + clean(op.s(0)); break;
        case 1: l.raw = ws(a, true) + ws(b, false); break;
        case 2: {
            std::string name = op.s(0).empty() ? "main" : op.s(0);
            static const char *kw[] = {"begin", "begin", "bEGIN", "beGin"};
            l.kind = 2; l.name = name;
            l.raw = ws(a, true) + kw[((b % 4) + 4) % 4] + " " + ws(b, false) + name + ws(a + b, false);
            break;
        }
        case 3: { static const char *e[] = {"end", "end", "end junk", "eND", "end  main", "End"}; int v = (int)(((a % 6) + 6) % 6); l.raw = ws(b, true) + e[v] + ws(a, false); l.kind = v == 5 ? 5 : 3; if (v == 5) l.text = "End"; break; }
        case 4: l.kind = 4; l.inc = (int)a; l.raw = ws(b, true) + "%include " + (a >= 0 && a <= 3 ? "f" + std::to_string(a) + ".cfg" : std::string("missing.cfg")); break;
        case 5: { std::string t = clean(op.s(0)); size_t p = t.find_first_not_of(' '); t = p == std::string::npos ? "" : t.substr(p); while (!t.empty() && t.back() == ' ') t.pop_back();
                  if (t.empty()) { l.raw = ""; break; }
                  l.kind = 5; l.text = t; l.raw = ws(a, true) + t + ws(b, false); break; }
        case 7: { std::string k = a & 1 ? "k" : "key2", v = b & 1 ? "v1" : "other";
                  if ((a >> 1) & 1) { l.kind = 7; l.raw = "%put(" + k + " " + v + ")"; l.name = k; l.text = v; }
                  else { l.kind = 5; l.raw = "value %get(" + k + ") tail"; l.name = k; l.text = "\x01get"; }
                  break; }
        default: return;
        }
        if (kind == 6) return;
        files[(size_t)f].push_back(l);
    }
    void add_deep(const Op &op) {
        int f = (int)(((op.i(0) % 4) + 4) % 4);
        long n = op.i(2);
        if (n < 1) n = 1;
        if (n > 255) n = 255;
        std::string name = op.s(0).empty() ? "main" : op.s(0);
        for (long i = 0; i < n; i++) files[(size_t)f].push_back({2, "begin " + name, name, "", -1});
        files[(size_t)f].push_back({5, "  deepest line  ", "", "deepest line", -1});
        for (long i = 0; i < n - op.i(3) % 3; i++) files[(size_t)f].push_back({3, "end", "", "", -1});   // sometimes leaves up to 2 unclosed
        static const long marks[] = {19, 20, 21, 39, 40, 41, 79, 80, 81, 159, 160, 161, 254, 255};
        for (long mk2 : marks) if (n == mk2) ctx.label("depth:" + std::to_string(n));
        if (n > 21) ctx.label("depth>21");
    }

    int lookup(const std::string &name) {   // -> handler index; -1 = built-in null
        if (!strcasecmp(name.c_str(), "null")) return own_null ? 31 : -1;
        for (size_t i = 0; i < reg.size(); i++) if (!strcasecmp(name.c_str(), reg[i].c_str())) return (int)i;
        ctx.label("unknown-context-falls-to-null");
        return own_null ? 31 : -1;
    }
    // reference interpreter: expected handler log + final depth
    long max_depth = 0;
    void model(std::vector<Entry> &out, long &depth) {
        struct Fr { int h; unsigned long state; };
        std::vector<Fr> st = {{own_null ? 31 : -1, 0}};
        unsigned long counter = 0;
        std::set<int> active;
        std::function<void(int)> run_file = [&](int f) {
            active.insert(f);
            for (auto &l : files[(size_t)f]) {
                if (out.size() > 15000) return;
                switch (l.kind) {
                case 2: {
                    int h = lookup(l.name);
                    for (auto &r : reg) if (strcasecmp(r.c_str(), l.name.c_str()) && r.size() >= 7 && l.name.size() >= 7 && !strncasecmp(r.c_str(), l.name.c_str(), 7)) ctx.label("context-names-sharing-a-7-char-prefix");
                    unsigned long in = st.back().state, o = 0;
                    if (h >= 0) { o = ++counter; out.push_back({h, 1, in, o, ""}); }
                    st.push_back({h, o});
                    max_depth = std::max<long>(max_depth, (long)st.size() - 1);
                    if (st.size() > 2) ctx.label("nesting>=2");
                    break;
                }
                case 3:
                    if (st.size() > 1) {
                        Fr top = st.back();
                        unsigned long o = 0;
                        if (top.h >= 0) { o = ++counter; out.push_back({top.h, 2, top.state, o, ""}); ctx.label("state-threaded-across-end"); }
                        st.pop_back();
                        st.back().state = o;
                    } else ctx.label("surplus-end");
                    break;
                case 4:
                    if (l.inc > f && l.inc <= 3 && !active.count(l.inc)) { ctx.label(st.size() > 1 ? "include-inside-a-block" : "include-at-top-level"); run_file(l.inc); }
                    else ctx.label("include-of-missing-file");
                    break;
                case 5: {
                    Fr &top = st.back();
                    std::string t = l.text;
                    if (t == "\x01get") { auto it = vars.find(l.name); t = "value " + (it == vars.end() ? std::string() : it->second) + " tail"; ctx.label("value-expanded"); }
                    if (top.h >= 0) { unsigned long o = ++counter; out.push_back({top.h, 3, top.state, o, t}); top.state = o; }
                    else ctx.label("text-in-built-in-null-context");
                    break;
                }
                case 7: vars[l.name] = l.text; break;
                default: break;
                }
            }
            active.erase(f);
        };
        run_file(0);
        depth = (long)st.size() - 1;
    }

    // the case's own directory is removed again (best effort): a thorough run makes hundreds of thousands of them
    std::string case_dir;
    void done_ok() {
        const std::string &dir = case_dir;
        if (chdir("/") == 0 && !dir.empty()) {
            if (DIR *dp = opendir(dir.c_str())) { while (dirent *e = readdir(dp)) if (e->d_name[0] != '.') unlink((dir + "/" + e->d_name).c_str()); closedir(dp); }
            rmdir(dir.c_str());
        }
        ctx.ok();
    }
    void run(const Case &c) {
        ht_install();
        std::string dir = config().scratch_dir + "/c09-" + std::to_string(getpid());
        case_dir = dir;
        mkdir(dir.c_str(), 0700);
        VT_CHECK(ctx, chdir(dir.c_str()) == 0, "harness", "chdir failed");
        cf_names("vtapp", "1.2.3");
        LA(cf_init());
        for (auto &op : c) {
            if (op.name == "regnull" && !own_null) { own_null = true; LA(cf_register("null", 31)); ctx.label("own-null-handler"); }
            if (op.name == "pad" && !padded) {   // filler contexts no line ever names: they push the ids of the contexts registered after them past 127 / 160 / 200
                padded = true;
                for (long i = 0; i < op.i(0) && i < 224; i++) { std::string n = "vtfill" + std::to_string(i); LA(cf_register(n.c_str(), 40)); }
                ctx.label(op.i(0) >= 127 ? "context-ids>=128" : "context-ids-padded<128");
            }
            if (op.name == "reg" && reg.size() < 24) {
                std::string n = op.s(0);
                bool dup = n.empty() || !strcasecmp(n.c_str(), "null");
                for (auto &r : reg) if (!strcasecmp(r.c_str(), n.c_str())) dup = true;
                if (!dup) { LA(cf_register(n.c_str(), (int)reg.size())); reg.push_back(n); }
            }
        }
        if (!own_null) ctx.label("built-in-null-handler");
        for (auto &op : c) { if (op.name == "L") { if (op.i(1) == 6) add_deep(op); else add_line(op); } }
        // an included file is only included from a lower-numbered one: drop the others (no cycles)
        for (int f = 0; f < 4; f++) {
            std::ofstream o(dir + "/f" + std::to_string(f) + ".cfg", std::ios::binary);
            // the magic line may carry any version (a newer one only draws a warning), also one longer than the "<name-" prefix
            static const char *magics[] = {"<vtapp-1.2.3>", "<vtapp-0.9>", "<vtapp-1.2.3.20261004-snapshot>", "<VTAPP-1.2>", "<vtapp-9.9.9>"};
            size_t mi = (files[(size_t)f].size() * 7 + (size_t)f * 3) % 5;
            o << magics[mi] << "\n";
            if (mi) ctx.label(std::string("magic-line:") + magics[mi]);
            size_t li = 0;
            for (auto &l : files[(size_t)f]) {
                std::string raw = l.raw;
                if (l.kind == 4 && !(l.inc > f && l.inc <= 3)) {
                    // nothing gets included: the file is missing, or exists but is empty, or exists without the magic line
                    static const char *refused[] = {"missing.cfg", "empty.cfg", "nomagic.cfg"};
                    const char *which = refused[(li + (size_t)f) % 3];
                    raw = std::string("%include ") + which; l.inc = 9;
                    ctx.label(std::string("include-refused:") + which);
                }
                o << raw << "\n";
                li++;
            }
        }
        { std::ofstream e(dir + "/empty.cfg", std::ios::binary); }
        { std::ofstream e(dir + "/nomagic.cfg", std::ios::binary); e << "begin main\nnot ours\nend\n"; }
        std::vector<Entry> want;
        long want_depth = 0;
        model(want, want_depth);
        if (max_depth > 255) {   // deeper than the parser's 8-bit context index can count: outside the property
            ctx.label("out-of-scope:nesting-deeper-than-255");
            LA(cf_free());
            done_ok();
        }
        int fds0 = cf_fd_census();
        int ok = LA(cf_parse("f0.cfg", nullptr, nullptr));
        VT_CHECK(ctx, ok == 1, "mismatch", "parse-returned-null; spifconf_parse returned NULL for an existing file with the magic line");
        int fds1 = cf_fd_census();
        VT_CHECK(ctx, fds0 == fds1, "mismatch", "files-left-open; " << fds1 - fds0 << " descriptor(s) still open after spifconf_parse returned");
        VT_CHECK(ctx, cf_fstate_idx() == 0, "mismatch", "file-stack-not-restored; file stack index is " << cf_fstate_idx() << " after parsing");
        VT_CHECK(ctx, !cf_log_overflow(), "harness", "log overflow");
        int n = cf_log_count();
        for (int i = 0; i < n && i < (int)want.size(); i++) {
            const Entry &e = want[(size_t)i];
            static const char *kn[] = {"?", "BEGIN", "END", "text"};
            std::string got_t = cf_log_text(i);
            bool same = cf_log_ctx(i) == e.ctx && cf_log_kind(i) == e.kind && got_t == e.text;
            VT_CHECK(ctx, same, "mismatch", "delivery; call " << i << " was (" << hname(cf_log_ctx(i)) << ", " << kn[cf_log_kind(i)] << ", \"" << printable(got_t, 40) << "\") expected (" << hname(e.ctx) << ", " << kn[e.kind] << ", \"" << printable(e.text, 40) << "\")");
            VT_CHECK(ctx, cf_log_in(i) == e.in, "mismatch", "state-threading; call " << i << " (" << hname(e.ctx) << ", " << kn[e.kind] << ") received state " << cf_log_in(i) << " expected " << e.in);
        }
        VT_CHECK(ctx, n == (int)want.size(), "mismatch", "delivery-count; " << n << " handler calls, expected " << want.size() << (n > (int)want.size() ? std::string(" (first extra: \"") + printable(cf_log_text((int)want.size()), 40) + "\")" : (!want.empty() ? " (first missing: \"" + printable(want[(size_t)n].text, 40) + "\")" : std::string())));
        unsigned depth = cf_stack(0);
        VT_CHECK(ctx, (long)depth == want_depth, "mismatch", "context-stack-depth; depth after parsing is " << depth << " expected " << want_depth << " (number of unclosed begins)");
        VT_CHECK(ctx, depth < cf_stack(1), "invariant", "context-stack-capacity; depth " << depth << " not below capacity " << cf_stack(1));
        if (want_depth == 0) ctx.label("balanced"); else ctx.label("unbalanced-input");
        VT_CHECK(ctx, cf_spawn_count() == 0, "mismatch", "spawn; a process was spawned for a text without backquote / %exec / %preproc");
        cf_reset_log();
        LA(cf_free());
        int delivered = 0, nest = 0, inc = 0;
        for (auto &e : want) if (e.kind == 3) delivered++;
        for (auto &f : files) for (auto &l : f) { if (l.kind == 2) nest++; if (l.kind == 4) inc++; }
        if (delivered >= 3 && (nest >= 2 || inc >= 1)) ctx.nontrivial();
        // heap balance: known finding KF-C11-1 (the path string of every %include is never freed)
        bool any_include = inc > 0;
        if (!ht_overflowed() && ht_live_count() != 0) {
            char b[200];
            ht_describe(b, sizeof b);
            if (any_include && ctx.quarantined("include-path-leak") && ht_live_all_cstr_suffix(".cfg")) ctx.excluded("KF-C11-1");   // exactly the known finding: nothing but %include path strings is live
            else ctx.fail("leak", std::string("heap-not-balanced; blocks live after spifconf_free_subsystem(): ") + b + (any_include ? " (includes were used)" : ""));
        }
        done_ok();
    }
    std::string hname(int h) { if (h == 31) return "null(own)"; if (h >= 0 && h < (int)reg.size()) return reg[(size_t)h]; return "handler" + std::to_string(h); }
};

rc::Gen<Case> gen_case() {
    return rc::gen::exec([]() {
        Case c;
        if (*range(0, 3) == 0) c.push_back(mk("pad", {*rc::gen::elementOf(std::vector<long>{60, 126, 127, 128, 150, 159, 160, 200, 224})}));
        if (*range(0, 1)) c.push_back(mk("regnull"));
        long nreg = *range(0, 8);
        for (long i = 0; i < nreg; i++) c.push_back(mk("reg", {}, {*rc::gen::elementOf(kCtx)}));
        auto lines = *rc::gen::container<std::vector<Op>>(rc::gen::exec([]() {
            int k = (int)*range(0, 99);
            long f = *range(0, 9) < 6 ? 0 : *range(1, 3);
            if (k < 6) return mk("L", {f, 0, *range(0, 5), 0}, {std::string("a comment")});
            if (k < 10) return mk("L", {f, 1, *range(0, 5), *range(0, 4)});
            if (k < 32) return mk("L", {f, 2, *range(0, 5), *range(0, 4)}, {*range(0, 7) == 0 ? *rc::gen::elementOf(std::vector<std::string>{"nosuchctx", "toolbar_iconsX", "buttons_lefty", "attributes3", "mai", "mainx"}) : *rc::gen::elementOf(kCtx)});
            if (k < 52) return mk("L", {f, 3, *range(0, 5), *range(0, 5)});
            if (k < 60) return mk("L", {f, 4, *range(0, 4), *range(0, 5)});
            if (k < 88) { std::string t = *range(0, 3) == 0 ? *rc::gen::elementOf(kLookalike) : *text_over("abcxyz 019._-=,:/", 24); return mk("L", {f, 5, *range(0, 5), *range(0, 4)}, {t}); }
            if (k < 94) return mk("L", {f, 7, *range(0, 3), *range(0, 1)});
            static const long depths[] = {2, 3, 5, 19, 20, 21, 39, 40, 41, 79, 80, 81, 159, 160, 161, 254, 255};
            return mk("L", {f, 6, *rc::gen::elementOf(std::vector<long>(depths, depths + 17)), *range(0, 8)}, {*rc::gen::elementOf(kCtx)});
        }));
        for (auto &l : lines) c.push_back(l);
        return c;
    });
}
struct C09 : Harness {
    const char *property() const override { return "C09"; }
    const char *rule() const override { return ""; }
    void run(const Case &c, Ctx &ctx) override { Interp in(ctx); in.run(c); }
    bool search(const std::string &, const std::function<bool(const Case &)> &try_case) override { return rc_search("C09 config delivery order vs reference interpreter", gen_case(), try_case); }
};
}  // namespace
vt::Harness *vt::make_harness() { return new C09(); }
