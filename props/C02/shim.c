/* C02 shim: the three list classes (array, linked_list, dlinked_list) through the SPIF_LIST_* interface.
 * Elements are spif_str objects; sequences are reported as text: "=word" per element, "~" per NULL
 * placeholder, joined by ','. */
#include "config.h"
#include <libast.h>
extern unsigned int vt_base_level;   /* engine/tracker_shim.c */
#include <sanitizer/asan_interface.h>
#include <sanitizer/allocator_interface.h>

#define NCLS 3
static spif_list_t L[NCLS][2]; /* [class][0 = current, 1 = other (dup / original)] */
static char outbuf[1 << 17];

static spif_list_t mk(int cls)
{
    switch (cls) {
    case 0: return SPIF_LIST_NEW(array);
    case 1: return SPIF_LIST_NEW(linked_list);
    default: return SPIF_LIST_NEW(dlinked_list);
    }
}
static spif_class_t cls_of(int cls)
{
    switch (cls) {
    case 0: return SPIF_CLASS(SPIF_LISTCLASS_VAR(array));
    case 1: return SPIF_CLASS(SPIF_LISTCLASS_VAR(linked_list));
    default: return SPIF_CLASS(SPIF_LISTCLASS_VAR(dlinked_list));
    }
}
static spif_obj_t word(const char *w)
{
    size_t n = strlen(w);
    char *p = (char *) malloc(n + 1);
    spif_str_t s;
    memcpy(p, w, n + 1);
    s = spif_str_new_from_ptr((spif_charptr_t) p);
    free(p);
    return SPIF_OBJ(s);
}
static int put(char *dst, size_t cap, size_t *off, spif_obj_t o)
{
    int w;
    if (SPIF_OBJ_ISNULL(o)) w = snprintf(dst + *off, cap - *off, "%s~", *off ? "," : "");
    else w = snprintf(dst + *off, cap - *off, "%s=%s", *off ? "," : "", (const char *) SPIF_STR_STR(SPIF_STR(o)));
    if (w < 0 || (size_t) w >= cap - *off) return 0;
    *off += (size_t) w;
    return 1;
}

int c02_init(void)
{
    int c;
    libast_debug_level = vt_base_level;
    for (c = 0; c < NCLS; c++) { L[c][0] = mk(c); L[c][1] = NULL; if (SPIF_LIST_ISNULL(L[c][0])) return 0; }
    return 1;
}
int c02_has_other(int cls) { return L[cls][1] != NULL; }
int c02_type_ok(int cls)
{
    const void *t = (const void *) SPIF_LIST_TYPE(L[cls][0]);
    spif_class_t k = cls_of(cls);
    return t == (const void *) k || t == (const void *) k->classname;
}

int c02_append(int cls, const char *w) { spif_obj_t o = word(w); int r = SPIF_LIST_APPEND(L[cls][0], o); if (!r) SPIF_OBJ_DEL(o); return r; }
int c02_prepend(int cls, const char *w) { spif_obj_t o = word(w); int r = SPIF_LIST_PREPEND(L[cls][0], o); if (!r) SPIF_OBJ_DEL(o); return r; }
int c02_insert_at(int cls, const char *w, int idx) { spif_obj_t o = word(w); int r = SPIF_LIST_INSERT_AT(L[cls][0], o, idx); if (!r) SPIF_OBJ_DEL(o); return r; }

/* returns text of an element: "~" NULL, "=word" otherwise (static buffer) */
static const char *elem_text(spif_obj_t o)
{
    size_t off = 0;
    outbuf[0] = 0;
    put(outbuf, sizeof(outbuf), &off, o);
    return outbuf;
}
/* the returned element is owned by the caller: report it, then delete it */
const char *c02_remove(int cls, const char *w)
{
    spif_obj_t probe = word(w), r = SPIF_LIST_REMOVE(L[cls][0], probe);
    const char *t = elem_text(r);
    SPIF_OBJ_DEL(probe);
    if (!SPIF_OBJ_ISNULL(r)) SPIF_OBJ_DEL(r);
    return t;
}
const char *c02_remove_at(int cls, int idx)
{
    spif_obj_t r = SPIF_LIST_REMOVE_AT(L[cls][0], idx);
    const char *t = elem_text(r);
    if (!SPIF_OBJ_ISNULL(r)) SPIF_OBJ_DEL(r);
    return t;
}
const char *c02_get(int cls, int idx) { return elem_text(SPIF_LIST_GET(L[cls][0], idx)); }
const char *c02_find(int cls, const char *w)
{
    spif_obj_t probe = word(w), r = SPIF_LIST_FIND(L[cls][0], probe);
    const char *t = elem_text(r);
    SPIF_OBJ_DEL(probe);
    return t;
}
int c02_contains(int cls, const char *w) { spif_obj_t probe = word(w); int r = SPIF_LIST_CONTAINS(L[cls][0], probe); SPIF_OBJ_DEL(probe); return r; }
/* the probe is the very object stored at position k (-2 when there is none there): identity must not beat equality */
int c02_index_stored(int cls, long k)
{
    spif_obj_t o = SPIF_LIST_GET(L[cls][0], (spif_listidx_t) k);
    if (!o) return -2;
    return (int) SPIF_LIST_INDEX(L[cls][0], o);
}
int c02_contains_stored(int cls, long k) { spif_obj_t o = SPIF_LIST_GET(L[cls][0], (spif_listidx_t) k); return o ? (int) SPIF_LIST_CONTAINS(L[cls][0], o) : -2; }
int c02_index(int cls, const char *w) { spif_obj_t probe = word(w); int r = (int) SPIF_LIST_INDEX(L[cls][0], probe); SPIF_OBJ_DEL(probe); return r; }
int c02_count(int cls, int which) { return (int) SPIF_LIST_COUNT(L[cls][which]); }
int c02_reverse(int cls) { return SPIF_LIST_REVERSE(L[cls][0]); }

/* sequence through get(0..count-1) */
const char *c02_seq_get(int cls, int which)
{
    size_t off = 0;
    int i, n = (int) SPIF_LIST_COUNT(L[cls][which]);
    outbuf[0] = 0;
    for (i = 0; i < n; i++) if (!put(outbuf, sizeof(outbuf), &off, SPIF_LIST_GET(L[cls][which], i))) break;
    return outbuf;
}
/* sequence through get(-1..-count), i.e. from the tail, reported in forward order by the caller */
const char *c02_seq_get_neg(int cls, int which)
{
    size_t off = 0;
    int i, n = (int) SPIF_LIST_COUNT(L[cls][which]);
    outbuf[0] = 0;
    for (i = n; i >= 1; i--) if (!put(outbuf, sizeof(outbuf), &off, SPIF_LIST_GET(L[cls][which], -i))) break;
    return outbuf;
}
const char *c02_seq_to_array(int cls, int which)
{
    size_t off = 0;
    int i, n = (int) SPIF_LIST_COUNT(L[cls][which]);
    spif_obj_t *a = SPIF_LIST_TO_ARRAY(L[cls][which]);
    outbuf[0] = 0;
    if (n > 0 && !a) return "!to_array returned NULL";
    if (a && __sanitizer_get_allocated_size(a) < sizeof(spif_obj_t) * (size_t) n) { FREE(a); return "!to_array block too small"; }
    for (i = 0; i < n; i++) if (!put(outbuf, sizeof(outbuf), &off, a[i])) break;
    FREE(a);
    return outbuf;
}
/* fresh iterator: up to `steps` next() calls (steps < 0: until has_next is false, bounded by limit);
 * appends "|h" + has_next after the walk, and "|x" + what one extra next() returns when asked */
const char *c02_seq_iter(int cls, int which, int steps, int limit, int extra_next)
{
    size_t off = 0;
    int k = 0;
    spif_iterator_t it = SPIF_LIST_ITERATOR(L[cls][which]);
    outbuf[0] = 0;
    if (SPIF_ITERATOR_ISNULL(it)) return "!iterator is NULL";
    while ((steps < 0 || k < steps) && k < limit && SPIF_ITERATOR_HAS_NEXT(it)) {
        if (!put(outbuf, sizeof(outbuf), &off, SPIF_ITERATOR_NEXT(it))) break;
        k++;
    }
    off += (size_t) snprintf(outbuf + off, sizeof(outbuf) - off, "|h%d", SPIF_ITERATOR_HAS_NEXT(it) ? 1 : 0);
    if (extra_next) {
        spif_obj_t o = SPIF_ITERATOR_NEXT(it);
        off += (size_t) snprintf(outbuf + off, sizeof(outbuf) - off, "|x%s|h%d", SPIF_OBJ_ISNULL(o) ? "~" : "=?", SPIF_ITERATOR_HAS_NEXT(it) ? 1 : 0);
    }
    SPIF_OBJ_DEL(SPIF_OBJ(it));
    return outbuf;
}
int c02_dup(int cls)
{
    if (L[cls][1]) { SPIF_LIST_DEL(L[cls][1]); L[cls][1] = NULL; }
    L[cls][1] = (spif_list_t) SPIF_LIST_DUP(L[cls][0]);
    if (SPIF_LIST_ISNULL(L[cls][1])) return 0;
    if (L[cls][1] == L[cls][0]) return -1;
    if (SPIF_OBJ_CLASS(L[cls][1]) != SPIF_OBJ_CLASS(L[cls][0])) return -2;
    return 1;
}
void c02_swap(int cls) { spif_list_t t = L[cls][0]; L[cls][0] = L[cls][1]; L[cls][1] = t; }
int c02_done(int cls) { return SPIF_LIST_DONE(L[cls][0]); }
int c02_del_other(int cls) { int r = 1; if (L[cls][1]) { r = SPIF_LIST_DEL(L[cls][1]); L[cls][1] = NULL; } return r; }
int c02_teardown(void)
{
    int c, w, ok = 1;
    for (c = 0; c < NCLS; c++) for (w = 0; w < 2; w++) if (L[c][w]) { if (!SPIF_LIST_DEL(L[c][w])) ok = 0; L[c][w] = NULL; }
    return ok;
}

/* structural invariants read through the public structs; returns NULL when fine */
const char *c02_invariant(int cls, int which)
{
    spif_list_t l = L[cls][which];
    static char msg[200];
    if (!l) return NULL;
    if (cls == 0) {
        spif_array_t a = SPIF_ARRAY(l);
        if (a->len < 0) return "array len negative";
        if (a->len > 0 && !a->items) return "array items NULL with len > 0";
        if (a->items && __sanitizer_get_allocated_size(a->items) < sizeof(spif_obj_t) * (size_t) a->len) {
            snprintf(msg, sizeof(msg), "array items block (%zu bytes) smaller than len %d", __sanitizer_get_allocated_size(a->items), (int) a->len);
            return msg;
        }
    } else if (cls == 1) {
        spif_linked_list_t ll = SPIF_LINKED_LIST(l);
        spif_linked_list_item_t cur;
        long n = 0;
        for (cur = ll->head; cur && n <= (long) ll->len + 1; cur = cur->next) n++;
        if (n != (long) ll->len) { snprintf(msg, sizeof(msg), "linked chain length %ld != len %d", n, (int) ll->len); return msg; }
    } else {
        spif_dlinked_list_t dl = SPIF_DLINKED_LIST(l);
        spif_dlinked_list_item_t cur, last = NULL;
        long n = 0;
        if ((dl->head == NULL) != (dl->tail == NULL)) return "dlinked head/tail NULL-ness differs";
        if (dl->head && dl->head->prev) return "dlinked head->prev not NULL";
        if (dl->tail && dl->tail->next) return "dlinked tail->next not NULL";
        for (cur = dl->head; cur && n <= (long) dl->len + 1; cur = cur->next) {
            if (cur->prev != last) { snprintf(msg, sizeof(msg), "dlinked back-link of node %ld does not point at its predecessor", n); return msg; }
            last = cur; n++;
        }
        if (n != (long) dl->len) { snprintf(msg, sizeof(msg), "dlinked chain length %ld != len %d", n, (int) dl->len); return msg; }
        if (last != dl->tail) return "dlinked tail is not the last node";
    }
    return NULL;
}
