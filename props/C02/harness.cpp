// C02 - every list implementation is the same abstract sequence (incl. iterators).
// Lock-step histories on array / linked_list / dlinked_list against std::vector<optional<string>>.
#include "../../engine/rcglue.hpp"
#include "tracker.hpp"
#include "../../engine/latrack.hpp"
#include <optional>

extern "C" {
int c02_init(void); int c02_has_other(int); int c02_type_ok(int);
int c02_append(int, const char *); int c02_prepend(int, const char *); int c02_insert_at(int, const char *, int);
const char *c02_remove(int, const char *); const char *c02_remove_at(int, int); const char *c02_get(int, int);
const char *c02_find(int, const char *); int c02_contains(int, const char *); int c02_index(int, const char *); int c02_index_stored(int, long); int c02_contains_stored(int, long);
int c02_count(int, int); int c02_reverse(int);
const char *c02_seq_get(int, int); const char *c02_seq_get_neg(int, int); const char *c02_seq_to_array(int, int);
const char *c02_seq_iter(int, int, int, int, int);
int c02_dup(int); void c02_swap(int); int c02_done(int); int c02_del_other(int); int c02_teardown(void);
const char *c02_invariant(int, int);
}

using namespace vt;

namespace {

const char *kCls[3] = {"array", "linked_list", "dlinked_list"};
const std::vector<std::string> kWords = {"a", "b", "c", "dd", "e", "zz"};
const char *kPos[] = {"farneg", "-len-1", "-len", "-1", "0", "1", "mid", "len-1", "len", "len+1", "len+2", "far", "raw"};

long resolve(long cls, long raw, long len) {
    switch (cls) {
    case 0: return -len - 7;
    case 1: return -len - 1;
    case 2: return -len;
    case 3: return -1;
    case 4: return 0;
    case 5: return 1;
    case 6: return len / 2;
    case 7: return len - 1;
    case 8: return len;
    case 9: return len + 1;
    case 10: return len + 2;
    case 11: return len + 5;
    default: return raw;
    }
}

using Seq = std::vector<std::optional<std::string>>;

std::string elem(const std::optional<std::string> &e) { return e ? "=" + *e : "~"; }
std::string seq_text(const Seq &s) {
    std::string t;
    for (size_t i = 0; i < s.size(); i++) { if (i) t += ','; t += elem(s[i]); }
    return t;
}

struct Interp {
    Ctx &ctx;
    Seq cur, other;
    bool has_other = false;
    int mutations = 0;
    bool armed = false;       // a reverse/remove/insert_at happened ...
    bool followed = false;    // ... and another op came after it
    bool after_reverse = false, after_tail_remove = false, on_dup = false;
    explicit Interp(Ctx &c) : ctx(c) {}

    std::string W(const Op &op, size_t k = 0) { return kWords[(size_t)(((op.i(k) % 6) + 6) % 6)]; }

    void verify(const char *when) {
        std::string want = seq_text(cur);
        bool has_ph = false;
        for (auto &e : cur) if (!e) has_ph = true;
        std::string got[3];
        for (int c = 0; c < 3; c++) {
            const char *inv = LA(c02_invariant(c, 0));
            VT_CHECK(ctx, inv == nullptr, "invariant", "structure:" << kCls[c] << "; " << inv << " " << when);
            int n = LA(c02_count(c, 0));
            VT_CHECK(ctx, n == (int)cur.size(), "mismatch", "count:" << kCls[c] << "; count=" << n << " expected " << cur.size() << " " << when);
            got[c] = LA(c02_seq_get(c, 0));
            VT_CHECK(ctx, got[c] == want, "mismatch", "sequence:" << kCls[c] << "; get(0..n-1) gives [" << got[c] << "] expected [" << want << "] " << when);
            std::string neg = LA(c02_seq_get_neg(c, 0));
            VT_CHECK(ctx, neg == want, "mismatch", "sequence-from-tail:" << kCls[c] << "; get(-n..-1) gives [" << neg << "] expected [" << want << "] " << when);
            std::string arr = LA(c02_seq_to_array(c, 0));
            VT_CHECK(ctx, arr == want, "mismatch", "to_array:" << kCls[c] << "; gives [" << arr << "] expected [" << want << "] " << when);
            std::string it = LA(c02_seq_iter(c, 0, -1, (int)cur.size() + 3, 1));
            std::string wit = want + "|h0|x~|h0";
            VT_CHECK(ctx, it == wit, "mismatch", "iterator:" << kCls[c] << "; gives [" << it << "] expected [" << wit << "] " << when);
            if (has_other) {
                const char *inv2 = LA(c02_invariant(c, 1));
                VT_CHECK(ctx, inv2 == nullptr, "invariant", "structure-of-other:" << kCls[c] << "; " << inv2 << " " << when);
                std::string o = LA(c02_seq_get(c, 1));
                VT_CHECK(ctx, o == seq_text(other), "mismatch", "dup-independence:" << kCls[c] << "; the other list reads [" << o << "] expected [" << seq_text(other) << "] " << when);
            }
        }
        VT_CHECK(ctx, got[0] == got[1] && got[1] == got[2], "mismatch", "classes-disagree; array [" << got[0] << "] linked [" << got[1] << "] dlinked [" << got[2] << "]");
        if (has_ph && !cur.empty()) ctx.label("iterate-with-placeholders");
    }

    void mutated() {
        mutations++;
        if (armed) followed = true;
        if (after_reverse) { ctx.label("mutation-after-reverse"); }
        if (after_tail_remove) { ctx.label("op-after-remove-of-tail"); }
        if (on_dup) ctx.label("mutation-on-dup");
    }

    void run(const Case &c) {
        ht_install();
        tracker_begin(ctx);
        VT_CHECK(ctx, LA(c02_init()) == 1, "mismatch", "new; a list constructor returned NULL");
        for (int k = 0; k < 3; k++) VT_CHECK(ctx, LA(c02_type_ok(k)), "mismatch", "type:" << kCls[k] << "; type() does not identify the class");
        verify("after construction");
        for (size_t at = 0; at < c.size(); at++) {
            ctx.step((int)at);
            ht_set_tag((int)at);
            apply(c[at]);
            verify(("after " + c[at].name).c_str());
        }
        ctx.step((int)c.size());
        VT_CHECK(ctx, LA(c02_teardown()) == 1, "mismatch", "del; del returned FALSE");
        if (tracker_final(ctx)) {
        } else if (!ht_overflowed() && ht_live_count() != 0) {
            char buf[256];
            ht_describe(buf, sizeof buf);
            ctx.fail("leak", "heap-not-balanced; " + std::to_string(ht_live_count()) + " block(s), " + std::to_string(ht_live_bytes()) + " bytes live after deleting all lists: " + buf);
        }
        if (mutations >= 4 && followed) ctx.nontrivial();
        ctx.ok();
    }

    void apply(const Op &op) {
        const std::string &n = op.name;
        const long len = (long)cur.size();
        bool was_after_reverse = after_reverse, was_after_tail = after_tail_remove;
        if (armed) followed = true;
        if (n == "append" || n == "prepend") {
            std::string w = W(op);
            for (int c = 0; c < 3; c++) {
                int r = n == "append" ? LA(c02_append(c, w.c_str())) : LA(c02_prepend(c, w.c_str()));
                VT_CHECK(ctx, r == 1, "mismatch", "return:" << kCls[c] << "; " << n << " returned FALSE");
            }
            if (n == "append") cur.push_back(w); else cur.insert(cur.begin(), w);
            mutated();
            if (was_after_reverse && n == "append") ctx.label("append-after-reverse");
            return;
        }
        if (n == "insert_at") {
            std::string w = W(op);
            long pc = op.i(1), idx = resolve(pc, op.i(2), len);
            long nidx = idx < 0 ? idx + len : idx;
            if (pc >= 0 && pc <= 11) ctx.label(std::string("insert_at:pos=") + kPos[pc]);
            if (idx > 100000 || idx < -100000) return;
            bool ok = nidx >= 0;
            for (int c = 0; c < 3; c++) {
                int r = LA(c02_insert_at(c, w.c_str(), (int)idx));
                VT_CHECK(ctx, r == (ok ? 1 : 0), "mismatch", "insert_at-return:" << kCls[c] << "; insert_at(idx=" << idx << ") on len " << len << " returned " << r << " expected " << (ok ? 1 : 0));
            }
            if (ok) {
                if (nidx > len) { cur.resize((size_t)nidx); ctx.label("insert_at:grows-with-placeholders"); }
                cur.insert(cur.begin() + nidx, w);
                mutated();
                armed = true;
            } else ctx.label("insert_at:refused");
            return;
        }
        if (n == "remove") {
            std::string w = W(op);
            std::string want = "~";
            long at = -1;
            for (size_t i = 0; i < cur.size(); i++) if (cur[i] && *cur[i] == w) { at = (long)i; break; }
            if (at >= 0) want = "=" + w;
            for (int c = 0; c < 3; c++) {
                std::string r = LA(c02_remove(c, w.c_str()));
                VT_CHECK(ctx, r == want, "mismatch", "remove-return:" << kCls[c] << "; remove(" << w << ") returned " << r << " expected " << want);
            }
            if (at >= 0) {
                bool tail = (at == len - 1);
                cur.erase(cur.begin() + at);
                mutated();
                armed = true;
                after_tail_remove = tail;
                if (tail) ctx.label("remove:tail");
                if (at == 0) ctx.label("remove:head");
            } else ctx.label("remove:absent");
            return;
        }
        if (n == "remove_at") {
            long pc = op.i(0), idx = resolve(pc, op.i(1), len);
            long nidx = idx < 0 ? idx + len : idx;
            if (pc >= 0 && pc <= 11) ctx.label(std::string("remove_at:pos=") + kPos[pc]);
            bool ok = nidx >= 0 && nidx < len;
            std::string want = ok ? elem(cur[(size_t)nidx]) : "~";
            for (int c = 0; c < 3; c++) {
                std::string r = LA(c02_remove_at(c, (int)idx));
                VT_CHECK(ctx, r == want, "mismatch", "remove_at-return:" << kCls[c] << "; remove_at(" << idx << ") on len " << len << " returned " << r << " expected " << want);
            }
            if (ok) {
                bool tail = (nidx == len - 1);
                cur.erase(cur.begin() + nidx);
                mutated();
                armed = true;
                after_tail_remove = tail;
                if (tail) ctx.label("remove:tail");
            } else ctx.label("remove_at:refused");
            return;
        }
        if (n == "get") {
            long pc = op.i(0), idx = resolve(pc, op.i(1), len);
            long nidx = idx < 0 ? idx + len : idx;
            if (pc >= 0 && pc <= 11) ctx.label(std::string("get:pos=") + kPos[pc]);
            std::string want = (nidx >= 0 && nidx < len) ? elem(cur[(size_t)nidx]) : "~";
            for (int c = 0; c < 3; c++) {
                std::string r = LA(c02_get(c, (int)idx));
                VT_CHECK(ctx, r == want, "mismatch", "get:" << kCls[c] << "; get(" << idx << ") on len " << len << " returned " << r << " expected " << want);
            }
            return;
        }
        if (n == "index_stored") {
            // index()/contains() with one of the list's own elements as the probe: the answer is still the FIRST equal element
            if (cur.empty()) return;
            long k = ((op.i(0) % (long)cur.size()) + (long)cur.size()) % (long)cur.size();
            if (!cur[(size_t)k]) return;
            long at = -1;
            for (size_t i = 0; i < cur.size(); i++) if (cur[i] && *cur[i] == *cur[(size_t)k]) { at = (long)i; break; }
            for (int c = 0; c < 3; c++) {
                int r = LA(c02_index_stored(c, k));
                VT_CHECK(ctx, r == at, "mismatch", "index:" << kCls[c] << "; index(get(" << k << ")) returned " << r << " expected " << at);
                VT_CHECK(ctx, LA(c02_contains_stored(c, k)) == 1, "mismatch", "contains:" << kCls[c] << "; contains(get(" << k << ")) is FALSE");
            }
            if (at != k) { ctx.label("index:probe-is-a-later-duplicate-stored-in-the-list"); }
            else ctx.label("index:probe-is-a-stored-element");
            return;
        }
        if (n == "index" || n == "find" || n == "contains") {
            std::string w = W(op);
            long at = -1;
            for (size_t i = 0; i < cur.size(); i++) if (cur[i] && *cur[i] == w) { at = (long)i; break; }
            for (int c = 0; c < 3; c++) {
                if (n == "index") { int r = LA(c02_index(c, w.c_str())); VT_CHECK(ctx, r == at, "mismatch", "index:" << kCls[c] << "; index(" << w << ") returned " << r << " expected " << at); }
                else if (n == "find") { std::string r = LA(c02_find(c, w.c_str())); std::string want = at >= 0 ? "=" + w : "~"; VT_CHECK(ctx, r == want, "mismatch", "find:" << kCls[c] << "; find(" << w << ") returned " << r << " expected " << want); }
                else { int r = LA(c02_contains(c, w.c_str())); VT_CHECK(ctx, r == (at >= 0), "mismatch", "contains:" << kCls[c] << "; contains(" << w << ") returned " << r); }
            }
            if (at < 0) ctx.label(n + ":absent");
            return;
        }
        if (n == "reverse") {
            for (int c = 0; c < 3; c++) { int r = LA(c02_reverse(c)); if (!cur.empty()) VT_CHECK(ctx, r == 1, "mismatch", "return:" << kCls[c] << "; reverse returned FALSE"); }
            std::reverse(cur.begin(), cur.end());
            mutated();
            armed = true;
            after_reverse = true;
            if (cur.empty()) ctx.label("reverse:empty");
            return;
        }
        if (n == "iterpart") {
            long k = ((op.i(0) % 8) + 8) % 8;
            Seq pre(cur.begin(), cur.begin() + std::min<long>(k, len));
            std::string want = seq_text(pre) + "|h" + (k < len ? "1" : "0");
            for (int c = 0; c < 3; c++) {
                std::string r = LA(c02_seq_iter(c, 0, (int)k, (int)len + 3, 0));
                VT_CHECK(ctx, r == want, "mismatch", "iterator-partial:" << kCls[c] << "; " << k << " steps give [" << r << "] expected [" << want << "]");
            }
            ctx.label("iterate-partial");
            return;
        }
        if (n == "dup") {
            for (int c = 0; c < 3; c++) {
                int r = LA(c02_dup(c));
                VT_CHECK(ctx, r == 1, "mismatch", "dup:" << kCls[c] << "; dup " << (r == 0 ? "returned NULL" : r == -1 ? "returned the same object" : "returned an object of another class"));
            }
            other = cur;
            has_other = true;
            ctx.label("dup");
            if (cur.empty()) ctx.label("dup:empty");
            for (auto &e : cur) if (!e) { ctx.label("dup:with-placeholders"); break; }
            return;
        }
        if (n == "swap") {
            if (!has_other) return;
            for (int c = 0; c < 3; c++) c02_swap(c);
            std::swap(cur, other);
            on_dup = !on_dup;
            ctx.label("op-on-dup");
            return;
        }
        if (n == "delother") {
            if (!has_other) return;
            for (int c = 0; c < 3; c++) VT_CHECK(ctx, LA(c02_del_other(c)) == 1, "mismatch", "del:" << kCls[c] << "; del returned FALSE");
            has_other = false;
            other.clear();
            ctx.label("delete-one-of-a-dup-pair");
            return;
        }
        if (n == "done") {
            for (int c = 0; c < 3; c++) VT_CHECK(ctx, LA(c02_done(c)) == 1, "mismatch", "done:" << kCls[c] << "; done returned FALSE");
            cur.clear();
            mutated();
            ctx.label("done-then-reuse");
            return;
        }
        if (n == "count") return;  // verified after every op anyway
        ctx.fail("harness", "unknown op " + n);
    }
};

rc::Gen<long> gen_pos() { return rc::gen::exec([]() -> long { return *range(0, 5) == 0 ? 12 : *range(0, 11); }); }

rc::Gen<Op> gen_op() {
    return rc::gen::exec([]() {
        int k = (int)*range(0, 99);
        long w = *range(0, 5);
        if (k < 14) return mk("append", {w});
        if (k < 24) return mk("prepend", {w});
        if (k < 42) return mk("insert_at", {w, *gen_pos(), *range(-12, 12)});
        if (k < 50) return mk("remove", {w});
        if (k < 60) return mk("remove_at", {*gen_pos(), *range(-12, 12)});
        if (k < 66) return mk("get", {*gen_pos(), *range(-12, 12)});
        if (k < 68) return mk("index", {w});
        if (k < 70) return mk("index_stored", {*range(0, 11)});
        if (k < 73) return mk("find", {w});
        if (k < 75) return mk("contains", {w});
        if (k < 83) return mk("reverse");
        if (k < 87) return mk("iterpart", {*range(0, 7)});
        if (k < 91) return mk("dup");
        if (k < 95) return mk("swap");
        if (k < 97) return mk("delother");
        return mk("done");
    });
}

struct C02 : Harness {
    const char *property() const override { return "C02"; }
    const char *rule() const override { return ""; }
    void run(const Case &c, Ctx &ctx) override { Interp in(ctx); in.run(c); }
    bool search(const std::string &, const std::function<bool(const Case &)> &try_case) override {
        return rc_search("C02 three list classes vs ideal sequence", rc::gen::container<std::vector<Op>>(gen_op()), try_case);
    }
};

}  // namespace

vt::Harness *vt::make_harness() { return new C02(); }
