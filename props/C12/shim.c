/* C12 shim: spiftool_split, the tok class, join and the word utilities on exact-size heap strings. */
#include "config.h"
#include <libast.h>

#define MAXTOK 70000
static char *toks[MAXTOK];
static long ntoks;

int c12_init(void) { libast_debug_level = 0; ntoks = 0; return 1; }
static char *exact(const char *t, long n) { char *p = (char *) malloc((size_t) n + 1); memcpy(p, t, (size_t) n); p[n] = 0; return p; }
static void clear_toks(void) { long i; for (i = 0; i < ntoks; i++) free(toks[i]); ntoks = 0; }

/* returns number of tokens (0 when split returns NULL) */
long c12_split(const char *delim, long dn, int delim_null, const char *s, long sn)
{
    char *d = delim_null ? NULL : exact(delim, dn), *str = exact(s, sn);
    spif_charptr_t *l = spiftool_split((spif_charptr_t) d, (spif_charptr_t) str);
    long i;
    clear_toks();
    if (l) {
        for (i = 0; l[i] && i < MAXTOK; i++) toks[ntoks++] = strdup((char *) l[i]);
        for (i = 0; l[i]; i++) free(l[i]);
        free(l);
    }
    free(d);
    free(str);
    return ntoks;
}
/* tok class: new_from_ptr, optional set_sep, eval (twice when again != 0), read the list; -1 when eval fails */
long c12_tok(const char *delim, long dn, int delim_null, const char *s, long sn, int again)
{
    char *d = delim_null ? NULL : exact(delim, dn), *str = exact(s, sn);
    spif_tok_t t = spif_tok_new_from_ptr((spif_charptr_t) str);
    spif_list_t l;
    long i, n;
    int ok;
    clear_toks();
    if (SPIF_TOK_ISNULL(t)) { free(d); free(str); return -2; }
    if (d) spif_tok_set_sep(t, spif_str_new_from_ptr((spif_charptr_t) d));
    ok = spif_tok_eval(t);
    if (ok && again) ok = spif_tok_eval(t);
    if (!ok) { spif_tok_del(t); free(d); free(str); return -1; }
    l = spif_tok_get_tokens(t);
    n = SPIF_LIST_ISNULL(l) ? 0 : (long) SPIF_LIST_COUNT(l);
    for (i = 0; i < n && i < MAXTOK; i++) {
        spif_str_t e = SPIF_STR(SPIF_LIST_GET(l, (spif_listidx_t) i));
        const char *txt = (SPIF_STR_ISNULL(e) || !SPIF_STR_STR(e)) ? "" : (const char *) SPIF_STR_STR(e);
        toks[ntoks++] = strdup(txt);
    }
    spif_tok_del(t);
    free(d);
    free(str);
    return ntoks;
}
const char *c12_token(long i) { return (i >= 0 && i < ntoks) ? toks[i] : ""; }
/* join n tokens given as one buffer of NUL-terminated strings; returns malloc'd string or NULL */
char *c12_join(const char *sep, long sepn, int sep_null, const char *packed, long n)
{
    char *sp = sep_null ? NULL : exact(sep, sepn), *r;
    char **l = (char **) malloc(sizeof(char *) * (size_t) (n + 1));
    long i;
    const char *p = packed;
    for (i = 0; i < n; i++) { long len = (long) strlen(p); l[i] = exact(p, len); p += len + 1; }
    l[n] = NULL;
    r = (char *) spiftool_join((spif_charptr_t) sp, (spif_charptr_t *) l);
    for (i = 0; i < n; i++) free(l[i]);
    free(l);
    free(sp);
    return r;
}
int c12_free(void *p) { free(p); return 1; }
unsigned long c12_num_words(const char *s, long sn) { char *str = exact(s, sn); unsigned long r = spiftool_num_words((spif_charptr_t) str); free(str); return r; }
/* get_word: returns malloc'd copy or NULL */
char *c12_get_word(unsigned long idx, const char *s, long sn) { char *str = exact(s, sn); char *r = (char *) spiftool_get_word(idx, (spif_charptr_t) str); free(str); return r; }
/* get_pword: offset into the string, -1 for NULL, -2 when the pointer is not inside the string */
long c12_get_pword(unsigned long idx, const char *s, long sn)
{
    char *str = exact(s, sn), *r = (char *) spiftool_get_pword(idx, (spif_charptr_t) str);
    long off = !r ? -1 : ((r >= str && r <= str + sn) ? (long) (r - str) : -2);
    free(str);
    return off;
}
