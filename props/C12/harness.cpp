// C12 - split, tok and the word utilities implement one quoting grammar consistently.
#include "../../engine/rcglue.hpp"
#include "../../engine/latrack.hpp"

extern "C" {
int c12_init(void); long c12_split(const char *, long, int, const char *, long); long c12_tok(const char *, long, int, const char *, long, int);
const char *c12_token(long); char *c12_join(const char *, long, int, const char *, long); int c12_free(void *);
unsigned long c12_num_words(const char *, long); char *c12_get_word(unsigned long, const char *, long); long c12_get_pword(unsigned long, const char *, long);
}
using namespace vt;
namespace {
bool sp(unsigned char c) { return c == ' ' || (c >= 9 && c <= 13); }

// ---- reference tokenizer, written from the statement
// delimiter set: NULL => whitespace; otherwise the characters of the set (the terminator is never a delimiter)
std::vector<std::string> ref_split(const std::string &s, const std::string &delim, bool delim_null) {
    auto is_delim = [&](char c) { return delim_null ? sp((unsigned char)c) : delim.find(c) != std::string::npos; };
    std::vector<std::string> out;
    size_t i = 0, n = s.size();
    char quote = 0;
    while (i < n && is_delim(s[i])) i++;
    while (i < n) {
        std::string tok;
        while (i < n && (quote || !is_delim(s[i]))) {
            char c = s[i];
            if (c == '"' || c == '\'') {
                if (quote) { if (quote == c) quote = 0; else tok.push_back(c); }   // other quote inside: literal
                else quote = c;
                i++;
            } else {
                if (c == '\\' && i + 1 < n && (is_delim(s[i + 1]) || (quote && s[i + 1] == quote))) i++;  // escape
                tok.push_back(s[i]);
                i++;
            }
        }
        out.push_back(tok);
        while (i < n && is_delim(s[i])) i++;
    }
    return out;
}
std::string trim(const std::string &t) { size_t a = 0, b = t.size(); while (a < b && sp((unsigned char)t[a])) a++; while (b > a && sp((unsigned char)t[b - 1])) b--; return t.substr(a, b - a); }

// ---- reference word scanner (word grammar): whitespace separated, a word opening with a quote runs to the matching quote
std::vector<std::string> ref_words(const std::string &s) {
    std::vector<std::string> w;
    size_t i = 0, n = s.size();
    while (i < n && sp((unsigned char)s[i])) i++;
    while (i < n) {
        if (s[i] == '"' || s[i] == '\'') {
            char q = s[i++];
            size_t st = i;
            while (i < n && s[i] != q) i++;
            w.push_back(s.substr(st, i - st));
            if (i < n) i++;
        } else {
            size_t st = i;
            while (i < n && !sp((unsigned char)s[i])) i++;
            w.push_back(s.substr(st, i - st));
        }
        while (i < n && sp((unsigned char)s[i])) i++;
    }
    return w;
}
// start offsets of the whitespace-separated words (past an opening quote); -1 when that lands on the terminator
std::vector<long> ref_pwords(const std::string &s) {
    std::vector<long> o;
    size_t i = 0, n = s.size();
    while (i < n && sp((unsigned char)s[i])) i++;
    while (i < n) {
        size_t st = i;
        if (s[st] == '"' || s[st] == '\'') st++;
        o.push_back(st < n ? (long)st : -1);
        while (i < n && !sp((unsigned char)s[i])) i++;
        while (i < n && sp((unsigned char)s[i])) i++;
    }
    return o;
}

std::string show(const std::vector<std::string> &v) { std::string t = "["; for (size_t i = 0; i < v.size(); i++) { if (i) t += "|"; t += printable(v[i], 30); } return t + "]"; }

struct Runner {
    Ctx &ctx;
    long evals = 0, nontrivial = 0;
    explicit Runner(Ctx &c) : ctx(c) {}

    std::vector<std::string> collect(long n) { std::vector<std::string> v; for (long i = 0; i < n; i++) v.push_back(c12_token(i)); return v; }

    void tokens(const std::string &s, const std::string &delim, bool dnull) {
        evals++;
        std::vector<std::string> want = ref_split(s, delim, dnull);
        std::string what = "(delim=" + (dnull ? std::string("default") : "\"" + printable(delim) + "\"") + ", \"" + printable(s, 60) + "\")";
        long n = LA(c12_split(delim.data(), (long)delim.size(), dnull, s.data(), (long)s.size()));
        std::vector<std::string> got = collect(n);
        if (want.size() <= 65535) VT_CHECK(ctx, got == want, "mismatch", "split; split" << what << " = " << show(got) << " expected " << show(want));
        else ctx.label("safety_only:more-than-65535-tokens");
        // tok class: same tokens, each trimmed
        long m = LA(c12_tok(delim.data(), (long)delim.size(), dnull, s.data(), (long)s.size(), (int)(s.size() & 1)));
        VT_CHECK(ctx, m >= 0, "mismatch", "tok_eval-failed; tok_eval" << what << " returned FALSE");
        std::vector<std::string> tgot = collect(m), twant;
        for (auto &t : want) twant.push_back(trim(t));
        VT_CHECK(ctx, tgot == twant, "mismatch", "tok; tok_eval" << what << " = " << show(tgot) << " expected " << show(twant));
        int kinds = 0;
        bool has_d = false, has_q = false, has_b = false;
        for (char c : s) { if (c == '"' || c == '\'') has_q = true; else if (c == '\\') has_b = true; else if (dnull ? sp((unsigned char)c) : delim.find(c) != std::string::npos) has_d = true; }
        kinds = has_d + has_q + has_b;
        if (kinds >= 2) nontrivial++;
        if (!s.empty() && s.back() == '\\') ctx.label(std::string("trailing-backslash:") + (dnull ? "default" : "explicit-delim"));
        if (want.size() > 1) ctx.label("tokens>1");
        for (auto &t : want) if (t.empty()) { ctx.label("empty-quoted-token"); break; }
        if (s.find("\\\"") != std::string::npos || s.find("\\'") != std::string::npos) ctx.label("backslash-next-to-quote");
        if (s.find("\"'") != std::string::npos || s.find("'\"") != std::string::npos) ctx.label("quote-inside-other-quote");
    }
    void words(const std::string &s) {
        evals++;
        std::vector<std::string> w = ref_words(s);
        std::vector<long> pw = ref_pwords(s);
        unsigned long nw = LA(c12_num_words(s.data(), (long)s.size()));
        std::string what = "(\"" + printable(s, 60) + "\")";
        VT_CHECK(ctx, nw == w.size(), "mismatch", "num_words; num_words" << what << " = " << nw << " expected " << w.size());
        bool esc = s.find("\\\"") != std::string::npos || s.find("\\'") != std::string::npos;
        if (esc) ctx.label("safety_only:get_word-with-backslash-quote");
        for (unsigned long i = 1; i <= nw + 2; i++) {
            char *g = LA(c12_get_word(i, s.data(), (long)s.size()));
            long off = LA(c12_get_pword(i, s.data(), (long)s.size()));
            if (i <= nw) {
                if (!esc) {
                    VT_CHECK(ctx, g != nullptr, "mismatch", "get_word; get_word(" << i << ", " << what << ") returned NULL but num_words is " << nw);
                    VT_CHECK(ctx, w[i - 1] == g, "mismatch", "get_word; get_word(" << i << ", " << what << ") = \"" << printable(g) << "\" expected \"" << printable(w[i - 1]) << "\"");
                }
                long wantoff = i <= pw.size() ? pw[i - 1] : -1;
                VT_CHECK(ctx, off == wantoff, "mismatch", "get_pword; get_pword(" << i << ", " << what << ") points at offset " << off << " expected " << wantoff);
            } else {
                VT_CHECK(ctx, off != -2, "mismatch", "get_pword-outside; get_pword(" << i << ", " << what << ") points outside the string");
            }
            c12_free(g);
        }
        if (w.size() >= 2 || s.find('"') != std::string::npos || s.find('\'') != std::string::npos) nontrivial++;
        if (!w.empty()) ctx.label("words>=1");
    }
    void roundtrip(const std::vector<std::string> &toks, const std::string &sep) {
        evals++;
        if (toks.empty()) return;
        std::string packed;
        for (auto &t : toks) { packed += t; packed.push_back('\0'); }
        char *j = LA(c12_join(sep.data(), (long)sep.size(), 0, packed.data(), (long)toks.size()));
        VT_CHECK(ctx, j != nullptr, "mismatch", "join; join returned NULL for " << toks.size() << " tokens");
        std::string joined(j), want;
        c12_free(j);
        for (size_t i = 0; i < toks.size(); i++) { if (i) want += sep; want += toks[i]; }
        VT_CHECK(ctx, joined == want, "mismatch", "join; join(\"" << printable(sep) << "\", " << show(toks) << ") = \"" << printable(joined, 80) << "\" expected \"" << printable(want, 80) << "\"");
        long n = LA(c12_split(sep.data(), (long)sep.size(), 0, joined.data(), (long)joined.size()));
        std::vector<std::string> got = collect(n);
        VT_CHECK(ctx, got == toks, "mismatch", "join-split-roundtrip; split(join(toks)) = " << show(got) << " expected " << show(toks));
        ctx.label("join-split-roundtrip");
        if (toks.size() >= 2) nontrivial++;
    }

    static const std::vector<std::pair<std::string, bool>> &delims() {
        // (the last two sets contain a quote character: as a delimiter it separates and can never open a quoted section)
        static const std::vector<std::pair<std::string, bool>> d = {{"", true}, {" ", false}, {":", false}, {" :", false}, {"", false}, {"' ", false}, {"\":", false}};
        return d;
    }
    void item(const Op &op) {
        if (op.name == "tok") { int di = (int)(((op.i(0) % 7) + 7) % 7); tokens(op.s(0), op.strs.size() > 1 ? op.s(1) : delims()[(size_t)di].first, op.strs.size() > 1 ? false : delims()[(size_t)di].second); }
        else if (op.name == "words") words(op.s(0));
        else if (op.name == "join") { std::vector<std::string> t(op.strs.begin() + 1, op.strs.end()); roundtrip(t, op.s(0)); }
        else ctx.fail("harness", "unknown op " + op.name);
    }
    void batch(const Op &op) {
        static const char alpha[] = {'a', 'b', ' ', ':', '\'', '"', '\\'};
        long L = op.i(0), part = op.i(1), nparts = op.i(2), k = 0;
        std::string s;
        std::function<void(long)> rec = [&](long d) {
            if (k++ % nparts == part) {
                for (int di = 0; di < 7; di++) { Op it = mk("tok", {di}, {s}); ctx.progress(op_to_text(it)); item(it); }
                Op it = mk("words", {}, {s}); ctx.progress(op_to_text(it)); item(it);
            }
            if (d == L) return;
            for (char c : alpha) { s.push_back(c); rec(d + 1); s.pop_back(); }
        };
        rec(0);
    }
};

// grammar pieces for long strings
rc::Gen<std::string> gen_piece(const std::string &delims) {
    return rc::gen::exec([=]() {
        int k = (int)*range(0, 11);
        std::string plain = *text_over(*range(0, 3) == 0 ? std::string("aZ0_" "\x80" "\xff" "\xa0" "\x01") : std::string("abcXYZ09_-"), 6);   // a quarter of the pieces carry bytes >= 0x80 and a control character (never whitespace, never a delimiter)
        std::string d(1, delims.empty() ? ' ' : *rc::gen::elementOf(delims));
        switch (k) {
        case 0: case 1: return plain;
        case 2: { std::string r; long n = *range(1, 3); for (long i = 0; i < n; i++) r += d; return r; }
        case 3: return "\"" + plain + d + plain + "\"";
        case 4: return "'" + plain + "\"" + plain + "'";          // other quote inside
        case 5: return "\\" + d;                                      // escaped delimiter
        case 6: return "\"" + plain + "\\\"" + plain + "\"";        // escaped closing quote
        case 7: return std::string(*range(0, 1) ? "\"\"" : "''");     // empty quotes
        case 8: return std::string(1, *range(0, 1) ? '"' : '\'');     // dangling / stray quote
        case 9: return std::string("\\");
        case 10: return "\"" + plain + "'" + d + "\"";
        default: return " \t" + plain;
        }
    });
}
rc::Gen<Case> gen_case() {
    return rc::gen::exec([]() {
        Case c;
        int k = (int)*range(0, 9);
        static const std::vector<std::string> dsets = {" \t\n", " ", ":", " :", ",;", "", "' ", "\":", "'\""};
        if (k < 5) {
            bool dnull = *range(0, 2) == 0;
            std::string dset = dnull ? " \t\n" : *rc::gen::elementOf(dsets);
            std::string s;
            long n = *sized_len(60);
            for (long i = 0; i < n; i++) s += *gen_piece(dset);
            if (*range(0, 5) == 0) s += "\\";
            if (dnull) c.push_back(mk("tok", {0}, {s})); else c.push_back(mk("tok", {1}, {s, dset}));
        } else if (k < 8) {
            std::string s;
            long n = *sized_len(40);
            for (long i = 0; i < n; i++) s += *gen_piece(" \t");
            c.push_back(mk("words", {}, {s}));
        } else {
            Op o = mk("join");
            o.strs.push_back(*rc::gen::elementOf(std::vector<std::string>{" ", ":", ",", "::"}));
            long n = *range(1, 12);
            for (long i = 0; i < n; i++) { std::string t = *text_over("abcxyz019_", 8); if (t.empty()) t = "q"; o.strs.push_back(t); }
            if (o.strs[0] == "::") o.strs[0] = ":";
            c.push_back(o);
        }
        return c;
    });
}
struct C12 : Harness {
    const char *property() const override { return "C12"; }
    const char *rule() const override { return ""; }
    std::vector<std::string> modes() const override { return {"enum", "random"}; }
    int hang_budget(int tier) const override { return tier ? 600 : 120; }
    void run(const Case &c, Ctx &ctx) override {
        ht_install();
        c12_init();
        Runner r(ctx);
        bool is_batch = false;
        for (size_t i = 0; i < c.size(); i++) {
            ctx.step((int)i);
            if (c[i].name == "batch") { is_batch = true; r.batch(c[i]); } else r.item(c[i]);
        }
        LA(c12_split("", 0, 1, "", 0));   // releases the shim's last token copies
        if (!ht_overflowed() && ht_live_count() != 0) { char b[200]; ht_describe(b, sizeof b); ctx.fail("leak", std::string("heap-not-balanced; blocks still live after the calls: ") + b); }
        if (is_batch) { ctx.evals(r.evals); ctx.nontrivial_count(r.nontrivial); }
        else if (r.nontrivial) ctx.nontrivial();
        ctx.ok();
    }
    bool search(const std::string &mode, const std::function<bool(const Case &)> &try_case) override {
        if (mode == "enum") {
            long nw = atol(config().kv.count("nworkers") ? config().kv["nworkers"].c_str() : "1");
            return try_case({mk("batch", {config().tier ? 7 : 5, config().worker, nw})});
        }
        return rc_search("C12 grammar-built strings", gen_case(), try_case);
    }
};
}  // namespace
vt::Harness *vt::make_harness() { return new C12(); }
