// C10 - config value expansion is a pure function of line, environment and var store.
#include "../../engine/rcglue.hpp"
#include "../../engine/latrack.hpp"
#include <strings.h>
#include <fcntl.h>
#include <unistd.h>
#include <dirent.h>
#include <sys/stat.h>
#include <string.h>

extern "C" {
int c10_names(const char *, const char *); int c10_init(void); int c10_free(void); int c10_regbi(int); int c10_setenv(const char *, const char *, int); int c10_spawns(void);
long c10_expand(const char *, long, long, int, int, int); const char *c10_result(void);
}
using namespace vt;
namespace {
const long kBuff = 20480, kMax = kBuff - 1;

struct World {
    std::map<std::string, std::string> env;   // only the VT_* names the generator uses
    std::string home;
    std::map<std::string, std::string> vars;  // %put/%get store
    std::string appname = "vtapp", version = "1.2.3";
};

// ---- reference expander, written from the statement
struct Ref {
    World &w;
    explicit Ref(World &w_) : w(w_) {}
    static bool namech(char c) { return isalnum((unsigned char)c) || c == '_'; }
    static std::vector<std::string> words(const std::string &s) { std::vector<std::string> v; std::istringstream is(s); std::string t; while (is >> t) v.push_back(t); return v; }
    std::string builtin(const std::string &name, const std::string &arg) {
        std::string n; for (char c : name) n.push_back((char)tolower((unsigned char)c));
        std::vector<std::string> a = words(arg);
        if (n == "get") { if (a.empty() || a.size() > 2) return ""; auto it = w.vars.find(a[0]); if (it != w.vars.end()) return it->second; return a.size() == 2 ? a[1] : ""; }
        if (n == "put") { if (a.size() == 2) w.vars[a[0]] = a[1]; return ""; }
        if (n == "appname") return w.appname + "-" + w.version;
        if (n == "version") return w.version;
        return "";
    }
    std::string expand(const std::string &s) {
        std::string out;
        bool sq = false, dq = false;
        size_t i = 0, n = s.size();
        while (i < n && (long)out.size() < kMax) {   // nothing past the line-buffer limit is looked at (no side effects either)
            char c = s[i];
            if (c == '\\' && i + 1 < n) {
                char d = s[i + 1];
                if (!sq || d == '\'') {
                    switch (d) { case 'n': out += '\n'; break; case 'r': out += '\r'; break; case 't': out += '\t'; break; case 'b': out += '\b'; break;
                    case 'f': out += '\f'; break; case 'a': out += '\a'; break; case 'v': out += '\v'; break; case 'e': out += '\033'; break; default: out += d; }
                } else { out += c; out += d; }
                i += 2;
            } else if (c == '~') { if (!sq && !dq && !w.home.empty()) out += w.home; else out += '~'; i++; }
            else if (c == '$' && !sq) {
                std::string name;
                size_t k = i + 1;
                if (k < n && (s[k] == '{' || s[k] == '(')) { char close = s[k] == '{' ? '}' : ')'; k++; while (k < n && s[k] != close) name.push_back(s[k++]); if (k < n) k++; }
                else while (k < n && namech(s[k])) name.push_back(s[k++]);
                auto it = w.env.find(name);
                if (it != w.env.end()) out += it->second;
                i = k;
            } else if (c == '%' && is_call(s, i)) {
                size_t k = i + 1;
                std::string name;
                while (k < n && s[k] != '(') name.push_back(s[k++]);
                k++;
                int depth = 1;
                std::string arg;
                while (k < n && depth) { if (s[k] == '(') depth++; else if (s[k] == ')') { depth--; if (!depth) break; } arg.push_back(s[k++]); }
                k++;
                Ref inner(w);
                out += builtin(name, inner.expand(arg));
                i = k;
            } else { if (c == '"' && !sq) dq = !dq; else if (c == '\'') sq = !sq; out += c; i++; }
        }
        return out;
    }
    static bool is_call(const std::string &s, size_t i) {
        static const char *names[] = {"get(", "put(", "appname(", "version("};
        for (auto nm : names) if (strncasecmp(s.c_str() + i + 1, nm, strlen(nm)) == 0) return true;
        return false;
    }
};

struct Interp {
    Ctx &ctx;
    World w;
    long evals = 0, nontrivial = 0;
    bool is_batch = false;
    explicit Interp(Ctx &c) : ctx(c) {}

    void setup_env(bool populated) {
        static const char *names[] = {"VT_A", "VT_E", "VT_U", "VT_M", "VT_L", "VT_S"};
        for (auto nm : names) c10_setenv(nm, "", 1);
        w.env.clear();
        if (populated) {
            w.env["VT_A"] = "alpha";
            w.env["VT_E"] = "";
            w.env["VT_M"] = "m$VT_A~\\n%get(x)'\"`";       // metacharacters in a value are not expanded again
            w.env["VT_L"] = std::string(1500, 'L');
            w.env["VT_S"] = "s";
            for (auto &kv : w.env) c10_setenv(kv.first.c_str(), kv.second.c_str(), 0);
            w.home = "/home/vt";
        } else w.home = "";
        c10_setenv("HOME", w.home.c_str(), 0);
    }

    // exact mode: one expansion against the reference, under three stack paintings and three slack fills
    void exact(const std::string &in) {
        evals++;
        if ((long)in.size() >= kMax) { ctx.label("skipped:line-at-or-over-the-buffer-size"); return; }   // the caller's lines are shorter than the buffer (and the model must not run ahead of the library)
        World before = w;
        Ref r(w);
        std::string want = r.expand(in);                    // also advances the model's var store
        long need = (long)std::max(in.size(), want.size()) + 1;
        bool over = (long)want.size() > kMax - 2;
        long bufsize = over ? kBuff : need;
        std::string first;
        for (int rep = 0; rep < 3; rep++) {
            // the call must be repeatable: same var store before each repetition
            if (rep) { restore_vars(before.vars); }
            long len = LA(c10_expand(in.data(), (long)in.size(), bufsize, rep, 0, rep));
            VT_CHECK(ctx, len != -2, "mismatch", "not-terminated; the result is not NUL-terminated inside its buffer for \"" << printable(in, 60) << "\"");
            VT_CHECK(ctx, len != -3, "mismatch", "return-pointer; expand did not return its argument");
            VT_CHECK(ctx, len >= 0, "mismatch", "null-result; expand returned NULL for well-formed input \"" << printable(in, 60) << "\"");
            std::string got(c10_result(), (size_t)len);
            VT_CHECK(ctx, len <= kMax, "mismatch", "too-long; result length " << len << " exceeds the line-buffer limit");
            if (!over) VT_CHECK(ctx, got == want, "mismatch", "expansion; expand(\"" << printable(in, 70) << "\") = \"" << printable(got, 70) << "\" expected \"" << printable(want, 70) << "\"");
            else { ctx.label("result-hits-the-limit"); VT_CHECK(ctx, want.compare(0, got.size(), got) == 0, "mismatch", "truncation; the over-long result is not a prefix of the ideal expansion"); }
            if (rep == 0) first = got;
            else VT_CHECK(ctx, got == first, "mismatch", "nondeterministic; the result depends on leftover stack / buffer contents: \"" << printable(first, 50) << "\" vs \"" << printable(got, 50) << "\" for \"" << printable(in, 50) << "\"");
        }
        int kinds = 0;
        if (in.find('\\') != std::string::npos) kinds++;
        if (in.find('$') != std::string::npos) kinds++;
        if (in.find('~') != std::string::npos) kinds++;
        if (in.find('%') != std::string::npos) kinds++;
        if (in.find('\'') != std::string::npos || in.find('"') != std::string::npos) kinds++;
        if (kinds >= 2) nontrivial++;
        else { size_t p = in.find_first_of("\\$~%"); if (p != std::string::npos && p > 0 && p + 2 < in.size()) nontrivial++; }
    }
    void restore_vars(const std::map<std::string, std::string> &vars) {
        // re-create the implementation's var store: free + init + replay puts (the store is part of the input)
        LA(c10_free());
        LA(c10_init());
        for (auto &kv : vars) { std::string p = "%put(" + kv.first + " " + kv.second + ")"; LA(c10_expand(p.data(), (long)p.size(), (long)p.size() + 1, 0, 0, -1)); }
    }

    // safety mode: any value; no reference, but never outside the buffer, repeatable, bounded, nothing spawned
    void safety(const std::string &in) {
        evals++;
        if ((long)in.size() >= kMax) return;
        bool can_grow = in.find('%') != std::string::npos || (!w.home.empty() && in.find('~') != std::string::npos) || (!w.env.empty() && in.find('$') != std::string::npos);
        World before = w;
        std::string first;
        bool first_null = false;
        int spawns0 = c10_spawns();
        for (int rep = 0; rep < 3; rep++) {
            if (in.find('%') != std::string::npos) restore_vars(before.vars);   // every repetition starts from the same (model) store - also the first: an earlier operation of the case may have left puts behind
            long len = LA(c10_expand(in.data(), (long)in.size(), can_grow ? kBuff : (long)in.size() + 1 + (rep ? 64 : 0), rep, (!can_grow && rep) ? 1 : 0, rep));
            VT_CHECK(ctx, len != -2, "mismatch", "not-terminated; result not terminated inside the buffer for \"" << printable(in, 60) << "\"");
            VT_CHECK(ctx, len <= kMax, "mismatch", "too-long; result length " << len);
            std::string got = len >= 0 ? std::string(c10_result(), (size_t)len) : std::string();
            bool random_call = strcasestr(in.c_str(), "%random") != nullptr;   // %random is nondeterministic by definition
            if (rep == 0) { first = got; first_null = len < 0; }
            else if (!random_call) VT_CHECK(ctx, got == first && (len < 0) == first_null, "mismatch", "nondeterministic; the result depends on what lies after the terminator / on leftover memory: \"" << printable(first, 50) << "\" vs \"" << printable(got, 50) << "\" for \"" << printable(in, 50) << "\"");
        }
        bool may_spawn = in.find('`') != std::string::npos || strcasestr(in.c_str(), "%exec") != nullptr;
        if (!may_spawn) VT_CHECK(ctx, c10_spawns() == spawns0, "mismatch", "spawn; a command was run although the text has neither a backquote nor %exec: \"" << printable(in, 60) << "\"");
        if (!in.empty()) {
            char last = in.back();
            if (last == '\\') ctx.label("ends-in-backslash");
            if (last == '%') ctx.label("ends-in-percent");
            if (in.rfind("${") != std::string::npos && in.find('}', in.rfind("${")) == std::string::npos) ctx.label("unterminated-${");
            if (in.rfind("$(") != std::string::npos && in.find(')', in.rfind("$(")) == std::string::npos) ctx.label("unterminated-$(");
            if (strcasestr(in.c_str(), "%get(") && std::count(in.begin(), in.end(), '(') > std::count(in.begin(), in.end(), ')')) ctx.label("unterminated-%get(");
        }
        if (in.size() >= 2) nontrivial++;
    }
    void batch(const Op &op) {
        static const char alpha[] = {'a', '$', '{', '(', '%', '\\', '\'', '"', '~', ')'};
        long L = op.i(0), part = op.i(1), nparts = op.i(2), k = 0;
        std::string s;
        std::function<void(long)> rec = [&](long d) {
            if (k++ % nparts == part) { ctx.progress(op_to_text(mk("safe", {op.i(3)}, {s}))); safety(s); }
            if (d == L) return;
            for (char c : alpha) { s.push_back(c); rec(d + 1); s.pop_back(); }
        };
        rec(0);
    }
    // %dirscan(dir) on a directory built to order: `count` regular files with names of `namelen` characters (plus `extra`
    // one-character names), so that the listing fills the 20 kB result buffer to any chosen byte
    void dirscan(const Op &op) {
        long count = std::min<long>(std::max<long>(op.i(0), 0), 120), namelen = std::min<long>(std::max<long>(op.i(1), 1), 255), extra = std::min<long>(std::max<long>(op.i(2), 0), 40);
        std::string dir = config().scratch_dir + "/ds" + std::to_string((long)getpid()) + "_" + std::to_string(ndirs++);
        mkdir(dir.c_str(), 0700);
        auto touch = [&](const std::string &name) { int fd = open((dir + "/" + name).c_str(), O_CREAT | O_WRONLY, 0600); if (fd >= 0) close(fd); };
        for (long i = 0; i < count; i++) { char num[16]; snprintf(num, sizeof num, "%03ld", i); std::string name = num; name.resize((size_t)namelen, 'n'); touch(name); }
        for (long i = 0; i < extra; i++) touch(std::string(1, (char)('A' + i)));
        long total = count * (std::max<long>(namelen, 3) + 1) + extra * 2;
        if (total >= 20478 && total <= 20482) ctx.label("dirscan:listing-fills-the-buffer-to-the-byte");
        else if (total > 20482) ctx.label("dirscan:listing-larger-than-the-buffer");
        else ctx.label("dirscan:listing-fits");
        safety("%dirscan(" + dir + ")");
        safety("x %dirscan(" + dir + ") y");
        if (DIR *d = opendir(dir.c_str())) {   // (system() is interposed in this binary)
            while (dirent *e = readdir(d)) if (e->d_name[0] != '.') unlink((dir + "/" + e->d_name).c_str());
            closedir(d);
        }
        rmdir(dir.c_str());
        nontrivial++;
    }
    long ndirs = 0;
    void run(const Case &c) {
        ht_install();
        c10_names(w.appname.c_str(), w.version.c_str());   // not tracked: process-wide message state
        LA(c10_init());
        bool populated = true;
        for (auto &op : c) if (op.name == "env") populated = op.i(0) != 0;
        for (auto &op : c) if (op.name == "batch" || op.name == "safe") { if (op.i(op.name == "batch" ? 3 : 0) == 0) populated = false; }
        setup_env(populated);
        ctx.label(populated ? "env:populated" : "env:empty");
        for (size_t at = 0; at < c.size(); at++) {
            ctx.step((int)at);
            const Op &op = c[at];
            if (op.name == "exp") { exact(op.s(0)); label_exact(op.s(0)); }
            else if (op.name == "safe") safety(op.s(0));
            else if (op.name == "dirs") dirscan(op);
            else if (op.name == "regbi") { long n = std::min<long>(std::max<long>(op.i(0), 0), 60); LA(c10_regbi((int)n)); ctx.label(n >= 13 ? "builtin-table-grew-twice" : n >= 3 ? "builtin-table-grew" : "builtins-registered"); }
            else if (op.name == "batch") { is_batch = true; batch(op); }
            else if (op.name == "env") continue;
            else if (op.name == "home") { static const char *homes[] = {"/h", "/home/vt", "/home/bartholomew/a/long/way/down", "/root"}; w.home = homes[((op.i(0) % 4) + 4) % 4]; c10_setenv("HOME", w.home.c_str(), 0); ctx.label("HOME-changed-between-expansions"); }
            else ctx.fail("harness", "unknown op " + op.name);
        }
        LA(c10_free());
        if (!ht_overflowed() && ht_live_count() != 0) { char b[200]; ht_describe(b, sizeof b); ctx.fail("leak", std::string("heap-not-balanced; blocks live after spifconf_free_subsystem(): ") + b); }
        if (is_batch) { ctx.evals(evals); ctx.nontrivial_count(nontrivial); }
        else if (nontrivial) ctx.nontrivial();
        ctx.ok();
    }
    void label_exact(const std::string &in) {
        static const char *vars[] = {"VT_A", "VT_E", "VT_U"};
        static const char *st[] = {"set", "empty", "unset"};
        for (int v = 0; v < 3; v++) {
            std::string n = vars[v];
            size_t p;
            if ((p = in.find("$" + n)) != std::string::npos && p > 0 && p + n.size() + 1 < in.size()) ctx.label(std::string("$NAME:") + st[v] + ":text-before-and-after");
            if ((p = in.find("${" + n + "}")) != std::string::npos && p > 0 && p + n.size() + 3 < in.size()) ctx.label(std::string("${NAME}:") + st[v] + ":text-before-and-after");
            if ((p = in.find("$(" + n + ")")) != std::string::npos && p > 0 && p + n.size() + 3 < in.size()) ctx.label(std::string("$(NAME):") + st[v] + ":text-before-and-after");
        }
        for (char e : std::string("nrtbfave\\x")) if (in.find(std::string("\\") + e) != std::string::npos) ctx.label(std::string("escape:\\") + e);
        if (in.find("'") != std::string::npos && (in.find('$') != std::string::npos || in.find('~') != std::string::npos)) ctx.label("single-quote-x-construct");
        { size_t a = in.find('\''), b = a == std::string::npos ? a : in.find('\'', a + 1); if (b != std::string::npos && in.substr(a, b - a).find('"') != std::string::npos && in.find('~', b) != std::string::npos) ctx.label("double-quote-inside-single-quotes-then-tilde"); }
        if ((in.find("(K ") != std::string::npos || in.find("(K)") != std::string::npos || in.find("(Key2") != std::string::npos)) ctx.label("keys-differing-only-in-case");
        if (in.find('"') != std::string::npos && (in.find('$') != std::string::npos || in.find('~') != std::string::npos)) ctx.label("double-quote-x-construct");
        if (in.find("%get(%get(") != std::string::npos || in.find("%put(k %get(") != std::string::npos) ctx.label("nested-call");
        if (in.find("%put(") != std::string::npos) ctx.label("put");
        if (in.find("%get(") != std::string::npos) ctx.label("get");
        if (in.find("%appname()") != std::string::npos || in.find("%version()") != std::string::npos) ctx.label("appname/version");
        if (in.find('~') != std::string::npos) ctx.label("tilde");
    }
};

// ------------------------------------------------------------------ generators
const std::string kPlain = std::string("abcXYZ 019_-./:=," "\xe9" "\xff" "\x80");   // three bytes >= 0x80: plain text to every rule
rc::Gen<std::string> gen_plain(long maxlen) { return text_over(kPlain, maxlen); }
rc::Gen<std::string> gen_envref() {
    return rc::gen::exec([]() {
        std::string n = *rc::gen::elementOf(std::vector<std::string>{"VT_A", "VT_A", "VT_E", "VT_U", "VT_M", "VT_S", "VT_L"});
        int f = (int)*range(0, 2);
        if (f == 0) return "$" + n + *rc::gen::elementOf(std::vector<std::string>{" ", "/", ".", "-", ":"});   // a bare name ends at the first non-name character
        if (f == 1) return "${" + n + "}";
        return "$(" + n + ")";
    });
}
rc::Gen<std::string> gen_escape() { return rc::gen::exec([]() { return std::string("\\") + *rc::gen::elementOf(std::string("nrtbfave\\x\"$~%")); }); }
rc::Gen<std::string> gen_call() {
    return rc::gen::exec([]() {
        int k = (int)*range(0, 9);
        std::string key = *rc::gen::elementOf(std::vector<std::string>{"k", "k", "key2", "x", "K", "Key2"});   // the store is case-sensitive
        std::string val = *rc::gen::elementOf(std::vector<std::string>{"v1", "v2", "other", "k"});
        if (k < 3) return "%put(" + key + " " + val + ")";
        if (k < 6) return "%get(" + key + ")";
        if (k == 6) return "%get(" + key + " dflt)";
        if (k == 7) return std::string(*range(0, 1) ? "%appname()" : "%version()");
        if (k == 8) return "%get(%get(" + key + "))";
        // arguments that GROW when they are expanded (the call's scratch buffer must not be sized by the text of the call)
        return *rc::gen::elementOf(std::vector<std::string>{"%put(k $VT_S)", "%put(k $VT_L)", "%put(key2 ${VT_L})", "%put(x ~/$VT_A)", "%get(nosuch $VT_L)", "%put(k $VT_A$VT_A$VT_A$VT_A)", "%put(K %get(k))"});
    });
}
rc::Gen<std::string> gen_value() {
    return rc::gen::exec([]() {
        std::string s;
        long n = *sized_len(12);
        for (long i = 0; i <= n; i++) {
            int k = (int)*range(0, 13);
            if (k < 4) s += *gen_plain(8);
            else if (k < 6) s += *gen_escape();
            else if (k == 6) s += "~";
            else if (k < 9) s += *gen_envref();
            else if (k == 9) {
                // inside single quotes a backslash keeps its follower - whatever the follower is (another backslash right before the closing quote,
                // a %call, a $NAME, a tilde): only \' means a quote
                s += "'"; long m = *range(0, 3);
                for (long j = 0; j < m; j++) { int q = (int)*range(0, 9); s += q == 0 ? *gen_plain(5) : q == 1 ? std::string("~") : q == 2 ? *gen_envref() : q == 3 ? std::string("\\n") : q == 4 ? std::string("\"") : q == 5 ? std::string("\\'")
                                                                         : q == 6 ? std::string("\\\\") : q == 7 ? std::string("\\%get(k)") : q == 8 ? std::string("\\$VT_A ") : std::string("\\~"); }
                s += "'"; if (*range(0, 1)) s += " ~ $VT_A ";
            }
            else if (k == 10) { s += "\""; long m = *range(0, 3); for (long j = 0; j < m; j++) { int q = (int)*range(0, 3); s += q == 0 ? *gen_plain(5) : q == 1 ? std::string("~") : q == 2 ? *gen_envref() : *gen_escape(); } s += "\""; }
            else if (k < 13) s += *gen_call();
            else { long rep = *range(0, 30) == 0 ? *range(9000, 21000) : *range(1, 300); s += std::string((size_t)rep, 'p'); }
        }
        return s;
    });
}
rc::Gen<Case> gen_exact() {
    return rc::gen::exec([]() {
        Case c;
        c.push_back(mk("env", {*range(0, 5) == 0 ? 0 : 1}));
        long n = *range(1, 4);
        if (*range(0, 19) == 0) {   // an expansion that runs into the line-buffer limit
            c[0].ints[0] = 1;
            long N = *rc::gen::elementOf(std::vector<long>{18960, 18975, 18976, 18977, 18978, 18979, 18980, 19100});
            c.push_back(mk("exp", {}, {std::string((size_t)N, 'q') + *rc::gen::elementOf(std::vector<std::string>{"${VT_L}", "$VT_L ", "$(VT_L)tail", "${VT_L}~"})}));
            return c;
        }
        for (long i = 0; i < n; i++) {
            c.push_back(mk("exp", {}, {*gen_value()}));
            if (c[0].ints[0] && *range(0, 5) == 0) { c.push_back(mk("home", {*range(0, 3)})); c.push_back(mk("exp", {}, {*rc::gen::elementOf(std::vector<std::string>{"~", "~/x and more", "path ~/x $VT_A", "a ~ b ~ c"})})); }
        }
        return c;
    });
}
rc::Gen<Case> gen_safe() {
    return rc::gen::exec([]() {
        Case c;
        long populated = *range(0, 1);
        static const std::vector<std::string> bits = {"$", "${", "$(", "}", ")", "%", "%get(", "%put(", "%get(k", "%put(k v", "%exec(", "%random(a b)", "%dirscan(/nonexistent)", "\\", "'", "\"", "~", "`", "a", " ", "VT_A", "%%", "%x", "$VT_A", "${VT_A", "%appname()", "%version (", "%GET(k)", "%e(x)", "%ex(touch m)", "%exe(", "%g(k)", "%pu(k v)"};
        std::string s;
        long n = *sized_len(14);
        for (long i = 0; i <= n; i++) s += *rc::gen::elementOf(bits);
        if (*range(0, 3) == 0) c.push_back(mk("regbi", {*rc::gen::elementOf(std::vector<long>{1, 2, 3, 8, 12, 13, 14, 33, 40})}));   // then a name that is no built-in walks the whole table
        c.push_back(mk("safe", {populated}, {s}));
        if (*range(0, 29) == 0) {
            // 80 names of 255 characters make exactly 20480 bytes of listing; walk around that point
            long k = *range(0, 6);
            static const long shapes[7][3] = {{80, 255, 0}, {79, 255, 0}, {79, 255, 40}, {81, 255, 3}, {3, 10, 5}, {0, 1, 0}, {100, 200, 30}};
            long extra = k == 2 ? *range(100, 140) : shapes[k][2];
            c.push_back(mk("dirs", {shapes[k][0], shapes[k][1], k == 2 ? extra - 100 + 0 : extra}));
            if (k == 2) c.back().ints[2] = *range(0, 40);
        }
        return c;
    });
}
struct C10 : Harness {
    const char *property() const override { return "C10"; }
    const char *rule() const override { return ""; }
    std::vector<std::string> modes() const override { return {"exact", "enum", "safe"}; }
    int hang_budget(int tier) const override { return tier ? 600 : 120; }
    void run(const Case &c, Ctx &ctx) override { Interp in(ctx); in.run(c); }
    bool search(const std::string &mode, const std::function<bool(const Case &)> &try_case) override {
        if (mode == "enum") {
            long nw = atol(config().kv.count("nworkers") ? config().kv["nworkers"].c_str() : "1");
            bool ok = try_case({mk("batch", {config().tier ? 6 : 5, config().worker, nw, 0})});
            ok &= try_case({mk("batch", {config().tier ? 5 : 4, config().worker, nw, 1})});
            return ok;
        }
        if (mode == "safe") return rc_search("C10 arbitrary values (safety)", gen_safe(), try_case);
        return rc_search("C10 grammar values vs reference expander", gen_exact(), try_case);
    }
};
}  // namespace
vt::Harness *vt::make_harness() { return new C10(); }
