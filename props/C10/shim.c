/* C10 shim: spifconf_shell_expand on a caller-chosen buffer, with slack painting / poisoning and stack painting. */
#include "config.h"
#include <libast.h>
#include <sanitizer/asan_interface.h>

static char outbuf[CONFIG_BUFF + 64];
static int spawn_count;

/* nothing is ever spawned: system() is interposed at link time (-Wl,--wrap=system) */
int __wrap_system(const char *cmd) { (void) cmd; spawn_count++; return -1; }
int c10_spawns(void) { return spawn_count; }

/* program name / version are process-wide message state, not part of the conf subsystem */
int c10_names(const char *name, const char *version)
{
    libast_debug_level = 0;
    spawn_count = 0;
    libast_set_program_name(name);
    libast_set_program_version(version);
    return 1;
}
int c10_init(void) { spifconf_init_subsystem(); return 1; }
int c10_free(void) { spifconf_free_subsystem(); return 1; }
/* application built-ins beyond the seven standard ones: the table grows at 10, 20, 40, ... entries */
static spif_charptr_t c10_app_builtin(spif_charptr_t param) { (void) param; return (spif_charptr_t) STRDUP("<app>"); }
int c10_regbi(int n)
{
    int i;
    char name[32];
    for (i = 0; i < n; i++) { snprintf(name, sizeof name, "vtb%d", i); spifconf_register_builtin(name, c10_app_builtin); }
    return 1;
}
int c10_setenv(const char *k, const char *v, int unset) { return unset ? unsetenv(k) : setenv(k, v, 1); }

static __attribute__((noinline)) void paint_stack(int pattern)
{
    volatile unsigned char area[96 * 1024];
    unsigned i;
    for (i = 0; i < sizeof(area); i++) area[i] = (unsigned char) (pattern == 2 ? (i * 131u + 7u) : (pattern ? 0xFF : 0x00));
    __asm__ volatile("" : : "r"(area) : "memory");
}
/* Expand `in` (n bytes) inside a heap buffer of `bufsize` bytes (>= n+1).
 * slack: how the bytes after the terminator are filled: 0 NULs, 1 0xA5, 2 metacharacters.
 * poison: make the slack unaddressable (only for inputs whose result cannot be longer than the input).
 * stack: <0 none, else paint the stack with that pattern first.
 * Returns length of the result (copied to the shim's buffer), -1 when NULL was returned,
 * -2 when the result is not terminated inside the buffer. */
long c10_expand(const char *in, long n, long bufsize, int slack, int poison, int stack)
{
    char *b = (char *) malloc((size_t) bufsize), *r;
    long i, len;
    static const char meta[] = "$(%\\`~'\"{)";
    memcpy(b, in, (size_t) n);
    b[n] = 0;
    for (i = n + 1; i < bufsize; i++) b[i] = slack == 0 ? 0 : slack == 1 ? (char) 0xA5 : meta[(i - n - 1) % (long) (sizeof(meta) - 1)];
    if (poison && bufsize > n + 1) ASAN_POISON_MEMORY_REGION(b + n + 1, (size_t) (bufsize - n - 1));
    if (stack >= 0) paint_stack(stack);
    r = (char *) spifconf_shell_expand((spif_charptr_t) b);
    if (poison && bufsize > n + 1) ASAN_UNPOISON_MEMORY_REGION(b + n + 1, (size_t) (bufsize - n - 1));
    if (!r) { free(b); return -1; }
    if (r != b) { free(b); return -3; }
    len = (long) strnlen(b, (size_t) bufsize);
    if (len >= bufsize) { free(b); return -2; }
    memcpy(outbuf, b, (size_t) len + 1);
    free(b);
    return len;
}
const char *c10_result(void) { return outbuf; }
