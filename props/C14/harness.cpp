// C14 - URL objects decompose and recompose every well-formed URL exactly; any byte string parses safely.
#include "../../engine/rcglue.hpp"
#include "../../engine/latrack.hpp"

extern "C" {
int c14_lookup(const char *, int, int); int c14_lookup_calls(void); int c14_init(void); int c14_parse(int, const char *, long, int);
int c14_unparse(int); int c14_del(int); const char *c14_comp(int, int); int c14_type_is_url(int);
}
using namespace vt;
namespace {
const char *kComp[] = {"proto", "user", "passwd", "host", "port", "path", "query"};
using Comps = std::vector<std::pair<bool, std::string>>;   // 7 x (present, text)

Comps read(int slot) { Comps c; for (int k = 0; k < 7; k++) { const char *s = LA(c14_comp(slot, k)); c.push_back({s != nullptr, s ? s : ""}); } return c; }
std::string show(const Comps &c) { std::string t; for (int k = 0; k < 7; k++) { t += kComp[k]; t += "="; t += c[(size_t)k].first ? "'" + printable(c[(size_t)k].second, 24) + "'" : "~"; t += " "; } return t; }
bool alnum_only(const std::string &s) { for (unsigned char c : s) if (!isalnum(c)) return false; return true; }

struct Interp {
    Ctx &ctx;
    explicit Interp(Ctx &c) : ctx(c) {}

    // tuple op: ints = present mask (7 bits), slashes(0/1), outcome(0..4), port number for the lookup ; strs = 7 component texts
    void tuple(const Op &op) {
        long mask = op.i(0);
        bool slashes = op.i(1) & 1;
        int outcome = (int)(((op.i(2) % 5) + 5) % 5), lport = (int)(op.i(3) % 65536);
        Comps want(7, {false, ""});
        for (int k = 0; k < 7; k++) { want[(size_t)k].first = (mask >> k) & 1; want[(size_t)k].second = op.s((size_t)k); }
        auto &proto = want[0], &user = want[1], &passwd = want[2], &host = want[3], &port = want[4], &path = want[5], &query = want[6];
        // keep the tuple inside the accepted shape
        if (proto.first && (proto.second.empty() || !alnum_only(proto.second))) proto.first = false;
        if (!user.first) passwd.first = false;
        if (user.first && user.second.empty()) { user.first = passwd.first = false; }
        if (!host.first || host.second.empty()) { host.first = false; port.first = false; user.first = passwd.first = false; }
        if (port.first && port.second.empty()) port.first = false;
        if (passwd.first && passwd.second.empty()) passwd.first = false;
        if (path.first && (path.second.empty() || path.second[0] != '/')) path.second = "/" + path.second;
        if (path.first && !host.first) while (path.second.size() > 1 && path.second[1] == '/') path.second.erase(1, 1);   // "//" right after the scheme is the authority marker
        if (proto.first && (proto.second == "tcp" || proto.second == "udp")) outcome = 1;                                   // these words always resolve as protocols
        if (query.first && !path.first && query.second.find('/') != std::string::npos) for (auto &ch : query.second) if (ch == '/') ch = '_';
        if (!proto.first && !host.first && !path.first && !query.first) { path.first = true; path.second = "/only"; }
        for (auto &w : want) if (!w.first) w.second.clear();
        std::string text;
        if (proto.first) text += proto.second + ":";
        if (slashes && (host.first || proto.first)) text += "//";
        if (user.first) { text += user.second; if (passwd.first) text += ":" + passwd.second; text += "@"; }
        if (host.first) { text += host.second; if (port.first) text += ":" + port.second; }
        if (path.first) text += path.second;
        if (query.first) text += "?" + query.second;
        // is the decomposition unambiguous? a proto is present, or the text before the first ':' is not purely alphanumeric
        size_t colon = text.find(':');
        bool unambiguous = proto.first || colon == std::string::npos || !alnum_only(text.substr(0, colon));
        LA(c14_lookup(proto.first ? proto.second.c_str() : "", outcome, lport));
        int ok = LA(c14_parse(0, text.data(), (long)text.size(), (int)(op.i(4) & 1 ? 0xFF : 0x41)));
        VT_CHECK(ctx, ok == 1, "mismatch", "parse-failed; new_from_ptr returned NULL for \"" << printable(text, 80) << "\"");
        Comps got = read(0);
        bool expect_fill = proto.first && !port.first && (outcome == 2 || outcome == 3);
        if (unambiguous) {
            Comps w = want;
            if (expect_fill) { w[4] = {true, std::to_string(lport)}; }
            for (int k = 0; k < 7; k++) {
                VT_CHECK(ctx, got[(size_t)k] == w[(size_t)k], "mismatch", "component:" << kComp[k] << "; \"" << printable(text, 70) << "\" parsed as " << show(got) << "but was assembled from " << show(w));
            }
            ctx.label("tuple:unambiguous");
        } else ctx.label("tuple:ambiguous-laws-only");
        // port filled only when a protocol but no port was given and the lookup resolves to a service
        if (!port.first && unambiguous) {
            VT_CHECK(ctx, got[4].first == expect_fill, "mismatch", "default-port; port " << (got[4].first ? "filled with '" + got[4].second + "'" : "not filled") << " for \"" << printable(text, 60) << "\" with lookup outcome " << outcome);
        }
        if (!proto.first) VT_CHECK(ctx, c14_lookup_calls() == 0 || !unambiguous, "mismatch", "lookup-without-proto; the service database was consulted although no protocol was given: \"" << printable(text, 60) << "\"");
        static const char *on[] = {"neither", "protocol-found", "service-found-tcp", "service-found-udp", "service-found-but-its-protocol-unknown"};
        if (proto.first && !port.first) ctx.label(std::string("lookup:") + on[outcome]);
        for (int k = 0; k < 7; k++) if (!want[(size_t)k].first) ctx.label(std::string("absent:") + kComp[k]);
        if (passwd.first && passwd.second.find(':') != std::string::npos) ctx.label("colon-in-passwd");
        if (port.first && port.second.find(':') != std::string::npos) ctx.label("colon-in-port");
        if (path.first && path.second.find('@') != std::string::npos) ctx.label("at-in-path");
        if (path.first && path.second.find(':') != std::string::npos) ctx.label("colon-in-path");
        if (!proto.first && !host.first) ctx.label("bare-path");
        roundtrip(text);
        int present = 0;
        for (auto &w : want) present += w.first;
        if (present >= 3) ctx.nontrivial();
    }
    // unparse rebuilds the canonical text; parsing that text again yields the same components; canonical text is a fixed point
    void roundtrip(const std::string &text, bool compare = true) {
        VT_CHECK(ctx, LA(c14_unparse(0)) == 1, "mismatch", "unparse-failed; unparse returned FALSE for \"" << printable(text, 60) << "\"");
        VT_CHECK(ctx, LA(c14_type_is_url(0)), "mismatch", "unparse-changed-class; the object is no longer a URL after unparse");
        Comps after = read(0);
        const char *canon = LA(c14_comp(0, 7));
        std::string ctext = canon ? canon : "";
        int ok = LA(c14_parse(1, ctext.data(), (long)ctext.size(), 0xFF));
        if (!compare) { if (ok == 1) { read(1); LA(c14_unparse(1)); LA(c14_comp(1, 7)); } return; }
        VT_CHECK(ctx, ok == 1, "mismatch", "reparse-failed; the canonical text \"" << printable(ctext, 60) << "\" does not parse");
        Comps again = read(1);
        for (int k = 0; k < 7; k++)
            VT_CHECK(ctx, again[(size_t)k] == after[(size_t)k], "mismatch", "roundtrip:" << kComp[k] << "; \"" << printable(text, 50) << "\" -> unparse \"" << printable(ctext, 50) << "\" -> parse gives " << show(again) << "but the object held " << show(after));
        VT_CHECK(ctx, LA(c14_unparse(1)) == 1, "mismatch", "unparse-failed");
        const char *canon2 = LA(c14_comp(1, 7));
        VT_CHECK(ctx, canon2 && ctext == canon2, "mismatch", "canonical-not-a-fixed-point; \"" << printable(ctext, 50) << "\" re-serialises as \"" << printable(canon2 ? canon2 : "(null)", 50) << "\"");
        ctx.label("roundtrip");
    }
    // arbitrary bytes: memory safety + the laws that hold for every input
    void raw(const Op &op) {
        std::string text = op.s(0);
        for (auto &ch : text) if (ch == 0) ch = '0';
        std::string word = op.s(1);
        LA(c14_lookup(word.c_str(), (int)(((op.i(0) % 5) + 5) % 5), (int)(op.i(1) % 65536)));
        int ok = LA(c14_parse(0, text.data(), (long)text.size(), (int)(op.i(2) & 1 ? 0xFF : 0x00)));
        VT_CHECK(ctx, ok == 1, "mismatch", "parse-failed; new_from_ptr returned NULL");
        Comps got = read(0);
        // The round trip is promised for URLs of the accepted shape only.  An arbitrary string is of that shape exactly when
        // re-assembling its parsed components (every present one non-empty, a host wherever user/passwd/port appear) gives
        // the string back; everything else is run through unparse/re-parse for memory safety alone.
        bool shaped = true;
        for (auto &g : got) if (g.first && g.second.empty()) shaped = false;
        if ((got[1].first || got[2].first || got[4].first) && !got[3].first) shaped = false;
        if (got[2].first && !got[1].first) shaped = false;
        if (shaped) {
            std::string a;
            if (got[0].first) a += got[0].second + ":";
            std::string rest;
            if (got[1].first) { rest += got[1].second; if (got[2].first) rest += ":" + got[2].second; rest += "@"; }
            if (got[3].first) { rest += got[3].second; if (got[4].first) rest += ":" + got[4].second; }
            if (got[5].first) rest += got[5].second;
            if (got[6].first) rest += "?" + got[6].second;
            // the accepted shape has a host - "[proto:][//][user[:passwd]@]host[:port][/path][?query]" - or is a bare path
            bool bare_path = !got[0].first && !got[1].first && !got[2].first && !got[3].first && !got[4].first && got[5].first && got[5].second.compare(0, 2, "//") != 0;
            if (got[3].first) shaped = (text == a + rest) || (text == a + "//" + rest);
            else shaped = bare_path && text == rest;
        }
        if (shaped) { roundtrip(text); ctx.label("raw-bytes:accepted-shape"); }
        else { roundtrip(text, false); ctx.label("raw-bytes:safety-only"); }
        if (text.size() >= 3) ctx.nontrivial();
        ctx.label("raw-bytes");
    }
    void run(const Case &c) {
        ht_install();
        c14_init();
        for (size_t at = 0; at < c.size(); at++) {
            ctx.step((int)at);
            if (c[at].name == "tuple") tuple(c[at]); else if (c[at].name == "raw") raw(c[at]); else ctx.fail("harness", "unknown op " + c[at].name);
        }
        LA(c14_del(0)); LA(c14_del(1));
        if (!ht_overflowed() && ht_live_count() != 0) { char b[200]; ht_describe(b, sizeof b); ctx.fail("leak", std::string("heap-not-balanced; blocks live after deleting the URL objects: ") + b); }
        ctx.ok();
    }
};
rc::Gen<Op> gen_tuple_op() {
    return rc::gen::exec([]() {
        Op o = mk("tuple");
        long mask = 0;
        for (int k = 0; k < 7; k++) if (*range(0, 9) < 6) mask |= 1L << k;
        o.ints = {mask, *range(0, 1), *range(0, 4), *rc::gen::elementOf(std::vector<long>{80, 21, 443, 8080, 1, 65535, 10000}), *range(0, 1)};
        // (families of scheme words that are prefixes of one another: a parse must not remember the previous one's lookup)
        std::string proto = *rc::gen::elementOf(std::vector<std::string>{"http", "ftp", "tcp", "udp", "ip", "file", "x9", "unix", "HTTP", "zz", "https", "httpx", "htt", "ftps", "ft", "pop3", "pop3s"});
        std::string user = *text_over("abcXYZ019._-", 8), passwd = *text_over("abcXYZ019._-:", 8), host = *text_over("abcxyz019.-", 12);
        if (*range(0, 2) == 0) host = *rc::gen::elementOf(std::vector<std::string>{"localhost", "a", "host.example.org", "10.0.0.1", "h-1"});
        std::string port = *range(0, 4) == 0 ? *text_over("0123456789:", 6) : std::to_string(*range(0, 65535));
        std::string path = "/" + *text_over("abc019._-/@:~%+", 16), query = *text_over("abc019=&:@/?._-", 14);
        o.strs = {proto, user, passwd, host, port, path, query};
        return o;
    });
}
// one to three URLs per case, parsed one after the other in the same process: the answer for one must not depend on the ones before
rc::Gen<Case> gen_tuple() {
    return rc::gen::exec([]() {
        Case c;
        long n = *rc::gen::weightedElement<long>({{3, 1}, {2, 2}, {1, 3}});
        for (long i = 0; i < n; i++) c.push_back(*gen_tuple_op());
        return c;
    });
}
rc::Gen<Case> gen_raw() {
    return rc::gen::exec([]() {
        std::string t;
        long n = *sized_len(40);
        for (long i = 0; i < n; i++) { int k = (int)*range(0, 9); if (k < 4) t.push_back(*rc::gen::elementOf(std::string(":/@?#"))); else if (k < 8) t.push_back(*rc::gen::elementOf(std::string("abctpu019.-"))); else t.push_back((char)*range(1, 255)); }
        std::string word = *rc::gen::elementOf(std::vector<std::string>{"tcp", "http", "a", "", "udp"});
        if (*range(0, 2) == 0 && !t.empty()) t = word + ":" + t;
        Case c = {mk("raw", {*range(0, 4), *range(0, 65535), *range(0, 1)}, {t, word})};
        return c;
    });
}
struct C14 : Harness {
    const char *property() const override { return "C14"; }
    const char *rule() const override { return ""; }
    std::vector<std::string> modes() const override { return {"tuple", "raw"}; }
    void run(const Case &c, Ctx &ctx) override { Interp in(ctx); in.run(c); }
    bool search(const std::string &mode, const std::function<bool(const Case &)> &try_case) override {
        if (mode == "raw") return rc_search("C14 arbitrary byte strings", gen_raw(), try_case);
        return rc_search("C14 component tuples", gen_tuple(), try_case);
    }
};
}  // namespace
vt::Harness *vt::make_harness() { return new C14(); }
