/* C14 shim: url parse / unparse with the protocol and service lookups answered by the harness. */
#include "config.h"
#include <libast.h>
#include <netdb.h>

static int lk_outcome;        /* 0 neither, 1 the word is an IP protocol name, 2 tcp service, 3 udp-only service */
static int lk_port;
static char lk_word[256];
static struct protoent pe;
static struct servent se;
static char pe_name[32], se_name[256], se_proto[8];
static char *no_aliases[1] = {NULL};
static int lk_calls;

struct protoent *__wrap_getprotobyname(const char *name)
{
    lk_calls++;
    if (!name) return NULL;
    /* outcome 4: the word is a service, but the protocol its entry names cannot be looked up (a broken protocols database) */
    if (lk_outcome == 4 && (!strcmp(name, "tcp") || !strcmp(name, "udp")) && strcmp(name, lk_word)) return NULL;
    if (!strcmp(name, "tcp") || !strcmp(name, "udp") || (lk_outcome == 1 && !strcmp(name, lk_word))) {
        snprintf(pe_name, sizeof(pe_name), "%s", name);
        pe.p_name = pe_name; pe.p_aliases = no_aliases; pe.p_proto = !strcmp(name, "udp") ? 17 : 6;
        return &pe;
    }
    return NULL;
}
struct servent *__wrap_getservbyname(const char *name, const char *proto)
{
    lk_calls++;
    if (!name || strcmp(name, lk_word)) return NULL;
    if (((lk_outcome == 2 || lk_outcome == 4) && proto && !strcmp(proto, "tcp")) || (lk_outcome == 3 && proto && !strcmp(proto, "udp"))) {
        snprintf(se_name, sizeof(se_name), "%s", name);
        snprintf(se_proto, sizeof(se_proto), "%s", proto);
        se.s_name = se_name; se.s_aliases = no_aliases; se.s_port = htons((unsigned short) lk_port); se.s_proto = se_proto;
        return &se;
    }
    return NULL;
}
int c14_lookup(const char *word, int outcome, int port) { snprintf(lk_word, sizeof(lk_word), "%s", word); lk_outcome = outcome; lk_port = port; lk_calls = 0; return 1; }
int c14_lookup_calls(void) { return lk_calls; }

static spif_url_t U[4];
static char comp_buf[8][4096];
int c14_init(void) { libast_debug_level = 0; memset(U, 0, sizeof(U)); return 1; }

static __attribute__((noinline)) void paint_stack(int pattern)
{
    volatile unsigned char area[32 * 1024];
    unsigned i;
    for (i = 0; i < sizeof(area); i++) area[i] = (unsigned char) pattern;
    __asm__ volatile("" : : "r"(area) : "memory");
}
/* parse text (exact-size heap string) into slot; the stack is painted first so that a never-assigned
 * pointer local does not happen to hold a mapped address */
int c14_parse(int slot, const char *t, long n, int paint)
{
    char *p = (char *) malloc((size_t) n + 1);
    memcpy(p, t, (size_t) n);
    p[n] = 0;
    if (U[slot]) { spif_url_del(U[slot]); U[slot] = NULL; }
    paint_stack(paint);
    U[slot] = spif_url_new_from_ptr((spif_charptr_t) p);
    free(p);
    return U[slot] != NULL;
}
int c14_unparse(int slot) { return spif_url_unparse(U[slot]); }
int c14_del(int slot) { int r = 1; if (U[slot]) { r = spif_url_del(U[slot]); U[slot] = NULL; } return r; }
/* component k: 0 proto 1 user 2 passwd 3 host 4 port 5 path 6 query 7 whole text; returns NULL when absent */
const char *c14_comp(int slot, int k)
{
    spif_url_t u = U[slot];
    spif_str_t s;
    switch (k) {
    case 0: s = spif_url_get_proto(u); break;
    case 1: s = spif_url_get_user(u); break;
    case 2: s = spif_url_get_passwd(u); break;
    case 3: s = spif_url_get_host(u); break;
    case 4: s = spif_url_get_port(u); break;
    case 5: s = spif_url_get_path(u); break;
    case 6: s = spif_url_get_query(u); break;
    default: s = SPIF_STR(u); break;
    }
    if (SPIF_STR_ISNULL(s)) return NULL;
    snprintf(comp_buf[k], sizeof(comp_buf[k]), "%s", SPIF_STR_STR(s) ? (const char *) SPIF_STR_STR(s) : "");
    return comp_buf[k];
}
int c14_type_is_url(int slot) { return SPIF_OBJ_CLASS(U[slot]) == SPIF_CLASS_VAR(url); }
