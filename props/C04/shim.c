/* C04 shim: the three vector classes through the SPIF_VECTOR_* interface; elements are spif_str. */
#include "config.h"
#include <libast.h>
extern unsigned int vt_base_level;   /* engine/tracker_shim.c */
#include <sanitizer/allocator_interface.h>

#define NCLS 3
static spif_vector_t V[NCLS][2];
static char outbuf[1 << 17];

static spif_vector_t mk(int cls)
{
    switch (cls) {
    case 0: return SPIF_VECTOR_NEW(array);
    case 1: return SPIF_VECTOR_NEW(linked_list);
    default: return SPIF_VECTOR_NEW(dlinked_list);
    }
}
static spif_class_t cls_of(int cls)
{
    switch (cls) {
    case 0: return SPIF_CLASS(SPIF_VECTORCLASS_VAR(array));
    case 1: return SPIF_CLASS(SPIF_VECTORCLASS_VAR(linked_list));
    default: return SPIF_CLASS(SPIF_VECTORCLASS_VAR(dlinked_list));
    }
}
static spif_obj_t word(const char *w)
{
    size_t n = strlen(w);
    char *p = (char *) malloc(n + 1);
    spif_str_t s;
    memcpy(p, w, n + 1);
    s = spif_str_new_from_ptr((spif_charptr_t) p);
    free(p);
    return SPIF_OBJ(s);
}
static int put(size_t *off, spif_obj_t o)
{
    int w;
    if (SPIF_OBJ_ISNULL(o)) w = snprintf(outbuf + *off, sizeof(outbuf) - *off, "%s~", *off ? "," : "");
    else w = snprintf(outbuf + *off, sizeof(outbuf) - *off, "%s=%s", *off ? "," : "", (const char *) SPIF_STR_STR(SPIF_STR(o)));
    if (w < 0 || (size_t) w >= sizeof(outbuf) - *off) return 0;
    *off += (size_t) w;
    return 1;
}
int c04_init(void)
{
    int c;
    libast_debug_level = vt_base_level;
    for (c = 0; c < NCLS; c++) { V[c][0] = mk(c); V[c][1] = NULL; if (SPIF_VECTOR_ISNULL(V[c][0])) return 0; }
    return 1;
}
int c04_type_ok(int cls)
{
    const void *t = (const void *) SPIF_OBJ_TYPE(V[cls][0]);
    spif_class_t k = cls_of(cls);
    return t == (const void *) k || t == (const void *) k->classname;
}
/* the inserted object comes from an expression with a side effect, as in INSERT(v, next_record()): it must be evaluated exactly once */
static int mk_calls;
static spif_obj_t mk_last;
static spif_obj_t mk_once(const char *w) { mk_calls++; return mk_last = word(w); }
int c04_insert(int cls, const char *w)
{
    int r;
    mk_calls = 0;
    r = SPIF_VECTOR_INSERT(V[cls][0], mk_once(w));
    if (mk_calls != 1) return -7;      /* the interface macro evaluated its argument more than once (or not at all) */
    if (!r) SPIF_OBJ_DEL(mk_last);
    return r;
}
const char *c04_remove(int cls, const char *w)
{
    spif_obj_t probe = word(w), r = SPIF_VECTOR_REMOVE(V[cls][0], probe);
    size_t off = 0;
    outbuf[0] = 0;
    put(&off, r);
    SPIF_OBJ_DEL(probe);
    if (!SPIF_OBJ_ISNULL(r)) SPIF_OBJ_DEL(r);
    return outbuf;
}
/* find must hand back a *stored* element (not the probe): report text and whether it is the probe */
const char *c04_find(int cls, const char *w)
{
    spif_obj_t probe = word(w), r = SPIF_VECTOR_FIND(V[cls][0], probe);
    size_t off = 0;
    outbuf[0] = 0;
    if (r == probe) snprintf(outbuf, sizeof(outbuf), "!find returned the probe itself");
    else put(&off, r);
    SPIF_OBJ_DEL(probe);
    return outbuf;
}
int c04_contains(int cls, const char *w) { spif_obj_t probe = word(w); int r = SPIF_VECTOR_CONTAINS(V[cls][0], probe); SPIF_OBJ_DEL(probe); return r; }
long c04_count(int cls, int which) { return (long) SPIF_VECTOR_COUNT(V[cls][which]); }
const char *c04_seq_to_array(int cls, int which)
{
    size_t off = 0;
    long i, n = (long) SPIF_VECTOR_COUNT(V[cls][which]);
    spif_obj_t *a = SPIF_VECTOR_TO_ARRAY(V[cls][which]);
    outbuf[0] = 0;
    if (n > 0 && !a) return "!to_array returned NULL";
    if (a && __sanitizer_get_allocated_size(a) < sizeof(spif_obj_t) * (size_t) n) { FREE(a); return "!to_array block too small"; }
    for (i = 0; i < n; i++) if (!put(&off, a[i])) break;
    FREE(a);
    return outbuf;
}
const char *c04_seq_iter(int cls, int which, int limit)
{
    size_t off = 0;
    int k = 0;
    spif_iterator_t it = SPIF_VECTOR_ITERATOR(V[cls][which]);
    outbuf[0] = 0;
    if (SPIF_ITERATOR_ISNULL(it)) return "!iterator is NULL";
    while (k < limit && SPIF_ITERATOR_HAS_NEXT(it)) { if (!put(&off, SPIF_ITERATOR_NEXT(it))) break; k++; }
    off += (size_t) snprintf(outbuf + off, sizeof(outbuf) - off, "|h%d", SPIF_ITERATOR_HAS_NEXT(it) ? 1 : 0);
    SPIF_OBJ_DEL(SPIF_OBJ(it));
    return outbuf;
}
int c04_dup(int cls)
{
    if (V[cls][1]) { SPIF_OBJ_DEL(V[cls][1]); V[cls][1] = NULL; }
    V[cls][1] = (spif_vector_t) SPIF_OBJ_DUP(V[cls][0]);
    if (SPIF_VECTOR_ISNULL(V[cls][1])) return 0;
    if (V[cls][1] == V[cls][0]) return -1;
    if (SPIF_OBJ_CLASS(V[cls][1]) != SPIF_OBJ_CLASS(V[cls][0])) return -2;
    return 1;
}
int c04_swap(int cls) { spif_vector_t t = V[cls][0]; V[cls][0] = V[cls][1]; V[cls][1] = t; return 1; }
int c04_has_other(int cls) { return V[cls][1] != NULL; }
int c04_done(int cls) { return SPIF_OBJ_DONE(V[cls][0]); }
int c04_teardown(void)
{
    int c, w, ok = 1;
    for (c = 0; c < NCLS; c++) for (w = 0; w < 2; w++) if (V[c][w]) { if (!SPIF_OBJ_DEL(V[c][w])) ok = 0; V[c][w] = NULL; }
    return ok;
}
const char *c04_invariant(int cls, int which)
{
    spif_vector_t l = V[cls][which];
    static char msg[200];
    if (!l) return NULL;
    if (cls == 0) {
        spif_array_t a = SPIF_ARRAY(l);
        if (a->len < 0) return "array len negative";
        if (a->len > 0 && !a->items) return "array items NULL with len > 0";
        if (a->items && __sanitizer_get_allocated_size(a->items) < sizeof(spif_obj_t) * (size_t) a->len) return "array items block smaller than len";
    } else if (cls == 1) {
        spif_linked_list_t ll = SPIF_LINKED_LIST(l);
        spif_linked_list_item_t cur;
        long n = 0;
        for (cur = ll->head; cur && n <= (long) ll->len + 1; cur = cur->next) n++;
        if (n != (long) ll->len) { snprintf(msg, sizeof(msg), "linked chain length %ld != len %d", n, (int) ll->len); return msg; }
    } else {
        spif_dlinked_list_t dl = SPIF_DLINKED_LIST(l);
        spif_dlinked_list_item_t cur, last = NULL;
        long n = 0;
        if ((dl->head == NULL) != (dl->tail == NULL)) return "dlinked head/tail NULL-ness differs";
        if (dl->head && dl->head->prev) return "dlinked head->prev not NULL";
        if (dl->tail && dl->tail->next) return "dlinked tail->next not NULL";
        for (cur = dl->head; cur && n <= (long) dl->len + 1; cur = cur->next) {
            if (cur->prev != last) { snprintf(msg, sizeof(msg), "dlinked back-link of node %ld does not point at its predecessor", n); return msg; }
            last = cur; n++;
        }
        if (n != (long) dl->len) { snprintf(msg, sizeof(msg), "dlinked chain length %ld != len %d", n, (int) dl->len); return msg; }
        if (last != dl->tail) return "dlinked tail is not the last node";
    }
    return NULL;
}
