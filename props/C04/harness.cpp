// C04 - every vector implementation is the same sorted multiset.
#include "../../engine/rcglue.hpp"
#include "tracker.hpp"
#include "../../engine/latrack.hpp"
#include <set>

extern "C" {
int c04_init(void); int c04_type_ok(int); int c04_insert(int, const char *); const char *c04_remove(int, const char *);
const char *c04_find(int, const char *); int c04_contains(int, const char *); long c04_count(int, int);
const char *c04_seq_to_array(int, int); const char *c04_seq_iter(int, int, int); int c04_dup(int); int c04_swap(int);
int c04_has_other(int); int c04_done(int); int c04_teardown(void); const char *c04_invariant(int, int);
}
using namespace vt;
namespace {
const char *kCls[3] = {"array", "linked_list", "dlinked_list"};
// stored vocabulary and probes are interleaved so that "absent middle", "below min", "above max" exist
const std::vector<std::string> kWords = {"b", "d", "f", "h", "k", "m", "dd", "B"};

struct Interp {
    Ctx &ctx;
    std::multiset<std::string> cur, other;
    bool has_other = false, interesting = false, after_end_removal = false;
    int mutations = 0;
    explicit Interp(Ctx &c) : ctx(c) {}

    static std::string seq_text(const std::multiset<std::string> &s) {
        std::string t;
        for (auto &e : s) { if (!t.empty()) t += ','; t += "=" + e; }
        return t;
    }
    // resolve a probe symbolically against the model
    std::string probe(const Op &op) {
        long k = ((op.i(0) % 8) + 8) % 8;
        switch (k) {
        case 0: if (!cur.empty()) { ctx.label("probe:min"); return *cur.begin(); } break;
        case 1: if (!cur.empty()) { ctx.label("probe:max"); return *cur.rbegin(); } break;
        case 2: ctx.label("probe:below-min"); interesting = true; return "A";          // sorts before every stored word
        case 3: ctx.label("probe:above-max"); interesting = true; return "zz";         // sorts after every stored word
        case 4: {  // a duplicate if there is one
            for (auto it = cur.begin(); it != cur.end(); ++it) if (cur.count(*it) > 1) { ctx.label("probe:duplicate"); return *it; }
            break;
        }
        case 5: {  // absent middle value: between two stored values
            static const char *mid[] = {"c", "e", "g", "i", "l"};
            for (auto m : mid) if (!cur.count(m) && !cur.empty() && *cur.begin() < m && m < *cur.rbegin()) { ctx.label("probe:absent-middle"); return m; }
            break;
        }
        default: break;
        }
        return kWords[(size_t)(((op.i(1) % 8) + 8) % 8)];
    }
    void verify(const char *when) {
        std::string want = seq_text(cur);
        std::string got[3];
        for (int c = 0; c < 3; c++) {
            const char *inv = LA(c04_invariant(c, 0));
            VT_CHECK(ctx, inv == nullptr, "invariant", "structure:" << kCls[c] << "; " << inv << " " << when);
            long n = LA(c04_count(c, 0));
            VT_CHECK(ctx, n == (long)cur.size(), "mismatch", "count:" << kCls[c] << "; count=" << n << " expected " << cur.size() << " " << when);
            got[c] = LA(c04_seq_to_array(c, 0));
            VT_CHECK(ctx, got[c] == want, "mismatch", "to_array:" << kCls[c] << "; gives [" << got[c] << "] expected sorted [" << want << "] " << when);
            std::string it = LA(c04_seq_iter(c, 0, (int)cur.size() + 3));
            VT_CHECK(ctx, it == want + "|h0", "mismatch", "iterator:" << kCls[c] << "; gives [" << it << "] expected [" << want << "|h0] " << when);
            if (has_other) {
                const char *inv2 = LA(c04_invariant(c, 1));
                VT_CHECK(ctx, inv2 == nullptr, "invariant", "structure-of-other:" << kCls[c] << "; " << inv2 << " " << when);
                std::string o = LA(c04_seq_to_array(c, 1));
                VT_CHECK(ctx, o == seq_text(other), "mismatch", "dup-independence:" << kCls[c] << "; the other vector reads [" << o << "] expected [" << seq_text(other) << "] " << when);
            }
        }
        VT_CHECK(ctx, got[0] == got[1] && got[1] == got[2], "mismatch", "classes-disagree; array [" << got[0] << "] linked [" << got[1] << "] dlinked [" << got[2] << "]");
        for (auto &e : cur) if (cur.count(e) > 1) { interesting = true; ctx.label("state:has-duplicates"); break; }
        if (cur.size() == 1) ctx.label("state:single-element");
    }
    void run(const Case &c) {
        ht_install();
        tracker_begin(ctx);
        VT_CHECK(ctx, LA(c04_init()) == 1, "mismatch", "new; a vector constructor returned NULL");
        for (int k = 0; k < 3; k++) VT_CHECK(ctx, LA(c04_type_ok(k)), "mismatch", "type:" << kCls[k] << "; type() does not identify the class");
        verify("after construction");
        for (size_t at = 0; at < c.size(); at++) {
            ctx.step((int)at);
            ht_set_tag((int)at);
            apply(c[at]);
            verify(("after " + c[at].name).c_str());
        }
        ctx.step((int)c.size());
        VT_CHECK(ctx, LA(c04_teardown()) == 1, "mismatch", "del; del returned FALSE");
        if (tracker_final(ctx)) {
        } else if (!ht_overflowed() && ht_live_count() != 0) {
            char buf[256];
            ht_describe(buf, sizeof buf);
            ctx.fail("leak", "heap-not-balanced; " + std::to_string(ht_live_count()) + " block(s), " + std::to_string(ht_live_bytes()) + " bytes live after deleting all vectors: " + buf);
        }
        if (mutations >= 2 && interesting) ctx.nontrivial();
        ctx.ok();
    }
    void apply(const Op &op) {
        const std::string &n = op.name;
        if (after_end_removal) { ctx.label("op-after-end-removal"); interesting = true; after_end_removal = false; }
        if (n == "insert") {
            std::string w = kWords[(size_t)(((op.i(0) % 8) + 8) % 8)];
            for (int c = 0; c < 3; c++) { int r = LA(c04_insert(c, w.c_str())); VT_CHECK(ctx, r != -7, "mismatch", "argument-evaluated-twice:" << kCls[c] << "; SPIF_VECTOR_INSERT evaluated its item expression more than once"); VT_CHECK(ctx, r == 1, "mismatch", "return:" << kCls[c] << "; insert returned FALSE"); }
            if (cur.count(w)) ctx.label("insert:duplicate");
            if (cur.empty() || w < *cur.begin()) ctx.label("insert:new-min");
            if (cur.empty() || w >= *cur.rbegin()) ctx.label("insert:new-max");
            cur.insert(w);
            mutations++;
            return;
        }
        if (n == "remove") {
            std::string w = probe(op);
            bool present = cur.count(w) > 0;
            std::string want = present ? "=" + w : "~";
            bool end = present && (w == *cur.begin() || w == *cur.rbegin());
            for (int c = 0; c < 3; c++) {
                std::string r = LA(c04_remove(c, w.c_str()));
                VT_CHECK(ctx, r == want, "mismatch", "remove-return:" << kCls[c] << "; remove(" << w << ") returned " << r << " expected " << want);
            }
            if (present) { if (cur.count(w) > 1) ctx.label("remove:one-of-duplicates"); cur.erase(cur.find(w)); mutations++; after_end_removal = end; if (end) ctx.label("remove:end-element"); }
            else ctx.label("remove:absent");
            return;
        }
        if (n == "find" || n == "contains") {
            std::string w = probe(op);
            bool present = cur.count(w) > 0;
            for (int c = 0; c < 3; c++) {
                if (n == "find") { std::string r = LA(c04_find(c, w.c_str())); std::string want = present ? "=" + w : "~"; VT_CHECK(ctx, r == want, "mismatch", "find:" << kCls[c] << "; find(" << w << ") returned " << r << " expected " << want << " in [" << seq_text(cur) << "]"); }
                else { int r = LA(c04_contains(c, w.c_str())); VT_CHECK(ctx, r == (present ? 1 : 0), "mismatch", "contains:" << kCls[c] << "; contains(" << w << ") returned " << r << " in [" << seq_text(cur) << "]"); }
            }
            if (cur.size() == 1) ctx.label("probe:single-element-vector");
            if (cur.empty()) ctx.label("probe:empty-vector");
            return;
        }
        if (n == "dup") {
            for (int c = 0; c < 3; c++) { int r = LA(c04_dup(c)); VT_CHECK(ctx, r == 1, "mismatch", "dup:" << kCls[c] << "; dup " << (r == 0 ? "returned NULL" : r == -1 ? "returned the same object" : "returned an object of another class")); }
            other = cur; has_other = true; ctx.label("dup");
            if (cur.empty()) ctx.label("dup:empty");
            return;
        }
        if (n == "swap") { if (!has_other) return; for (int c = 0; c < 3; c++) c04_swap(c); std::swap(cur, other); ctx.label("op-on-dup"); return; }
        if (n == "done") { for (int c = 0; c < 3; c++) VT_CHECK(ctx, LA(c04_done(c)) == 1, "mismatch", "done:" << kCls[c] << "; done returned FALSE"); cur.clear(); mutations++; ctx.label("done-then-reuse"); return; }
        ctx.fail("harness", "unknown op " + n);
    }
};

rc::Gen<Op> gen_op() {
    return rc::gen::exec([]() {
        int k = (int)*range(0, 99);
        if (k < 40) return mk("insert", {*range(0, 7)});
        if (k < 60) return mk("remove", {*range(0, 7), *range(0, 7)});
        if (k < 78) return mk("find", {*range(0, 7), *range(0, 7)});
        if (k < 88) return mk("contains", {*range(0, 7), *range(0, 7)});
        if (k < 93) return mk("dup");
        if (k < 97) return mk("swap");
        return mk("done");
    });
}
struct C04 : Harness {
    const char *property() const override { return "C04"; }
    const char *rule() const override { return ""; }
    void run(const Case &c, Ctx &ctx) override { Interp in(ctx); in.run(c); }
    bool search(const std::string &, const std::function<bool(const Case &)> &try_case) override {
        return rc_search("C04 three vector classes vs sorted multiset", rc::gen::container<std::vector<Op>>(gen_op()), try_case);
    }
};
}  // namespace
vt::Harness *vt::make_harness() { return new C04(); }
