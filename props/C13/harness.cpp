// C13 - bounded and in-place string helpers stay inside their buffers and are exact.
#include "../../engine/rcglue.hpp"
#include "../../engine/latrack.hpp"
#include <cctype>

extern "C" {
int c13_init(void); int c13_bounded(int, const char *, long, long, long, char *);
long c13_substr(const char *, long, long, long, char *, long); long c13_inplace(int, const char *, long, long, char *, long);
}
using namespace vt;
namespace {
const char *kFn[] = {"chomp", "condense_whitespace", "downcase_str", "upcase_str", "safe_str", "strrev"};
bool sp(unsigned char c) { return c == ' ' || (c >= 9 && c <= 13); }

std::string ref_inplace(int fn, const std::string &s, long arg) {
    std::string o;
    switch (fn) {
    case 0: { size_t a = 0, b = s.size(); while (a < b && sp((unsigned char)s[a])) a++; while (b > a && sp((unsigned char)s[b - 1])) b--; return s.substr(a, b - a); }
    case 1: {  // runs -> one blank; a trailing blank is dropped; a leading run stays as one blank
        bool got = false;
        for (unsigned char c : s) { if (sp(c)) { if (!got) { o.push_back(' '); got = true; } } else { o.push_back((char)c); got = false; } }
        if (!o.empty() && o.back() == ' ') o.pop_back();
        return o;
    }
    case 2: o = s; for (auto &c : o) { unsigned char u = (unsigned char)c; if (u < 128) c = (char)tolower(u); } return o;
    case 3: o = s; for (auto &c : o) { unsigned char u = (unsigned char)c; if (u < 128) c = (char)toupper(u); } return o;
    case 4: o = s; for (long i = 0; i < arg && i < (long)o.size(); i++) { unsigned char u = (unsigned char)o[(size_t)i]; if (u < 32 || u == 127) o[(size_t)i] = '.'; } return o;
    default: o = s; std::reverse(o.begin(), o.end()); return o;
    }
}

struct Runner {
    Ctx &ctx;
    long evals = 0, nontrivial = 0;
    std::vector<char> out;
    explicit Runner(Ctx &c) : ctx(c), out(1 << 16) {}

    void bounded(int cat, const std::string &src, long dlen, long size) {
        evals++;
        std::vector<char> d((size_t)size);
        int r = LA(c13_bounded(cat, src.data(), (long)src.size(), dlen, size, d.data()));
        std::string what = std::string(cat ? "safe_strncat" : "safe_strncpy") + "(size=" + std::to_string(size) + ", srclen=" + std::to_string(src.size()) + (cat ? ", destlen=" + std::to_string(dlen) : "") + ")";
        if (cat && dlen >= size) {
            // destination not terminated within size: nothing may be written, FALSE
            ctx.label("strncat:unterminated-destination");
            nontrivial++;
            VT_CHECK(ctx, r == 0, "mismatch", "strncat-unterminated; " << what << " returned TRUE");
            for (long i = 0; i < size; i++) VT_CHECK(ctx, d[(size_t)i] == (char)('A' + i % 26), "mismatch", "strncat-unterminated; " << what << " wrote to byte " << i);
            return;
        }
        long base = cat ? dlen : 0, room = size - base - 1;   // characters that fit after the prefix
        long fit = std::min<long>(room, (long)src.size());
        for (long i = 0; i < base; i++) VT_CHECK(ctx, d[(size_t)i] == (char)('A' + i % 26), "mismatch", "bounded-prefix; " << what << " changed destination byte " << i);
        VT_CHECK(ctx, memcmp(d.data() + base, src.data(), (size_t)fit) == 0, "mismatch", "bounded-content; " << what << " did not store the longest prefix that fits");
        VT_CHECK(ctx, d[(size_t)(base + fit)] == 0, "mismatch", "bounded-terminator; " << what << " did not terminate at offset " << base + fit);
        VT_CHECK(ctx, r == (fit == (long)src.size() ? 1 : 0), "mismatch", "bounded-return; " << what << " returned " << r << " but " << (fit == (long)src.size() ? "nothing" : "something") << " was cut off");
        if (size == 1) ctx.label("bounded:size==1");
        if (cat && dlen >= 65536) ctx.label("strncat:destination-longer-than-65535");
        if (room == (long)src.size()) ctx.label("bounded:exact-fit");
        if (room + 1 == (long)src.size()) ctx.label("bounded:one-short");
        if (size == (long)src.size()) ctx.label("bounded:size==srclen");
        if (size == (long)src.size() + 1) ctx.label("bounded:size==srclen+1");
        if (room <= (long)src.size()) nontrivial++;
    }
    void substr(const std::string &s, long idx, long cnt) {
        evals++;
        long len = (long)s.size();
        long n = LA(c13_substr(s.data(), len, idx, cnt, out.data(), (long)out.size()));
        long nidx = idx < 0 ? idx + len : idx;
        bool ok = nidx >= 0 && nidx < len;
        std::string what = "substr(len=" + std::to_string(len) + ", idx=" + std::to_string(idx) + ", cnt=" + std::to_string(cnt) + ")";
        if (!ok) { ctx.label("substr:refused-position"); VT_CHECK(ctx, n == -1, "mismatch", "substr-out-of-range-accepted; " << what << " returned a string"); nontrivial++; return; }
        long ncnt = cnt <= 0 ? len - nidx + cnt : cnt;
        if (ncnt < 0) {
            // carve-out: a count more negative than the remainder - the statement names no result; memory safety only
            ctx.label("safety_only:substr-overnegative-count");
            return;
        }
        if (ncnt > len - nidx) ncnt = len - nidx;
        VT_CHECK(ctx, n >= 0, "mismatch", "substr-in-range-refused; " << what << " returned NULL");
        std::string got(out.data(), (size_t)n), want = s.substr((size_t)nidx, (size_t)ncnt);
        VT_CHECK(ctx, got == want, "mismatch", "substr-slice; " << what << " returned \"" << printable(got) << "\" expected \"" << printable(want) << "\"");
        if (idx == -len || nidx == len - 1 || cnt == len - nidx || cnt == len - nidx + 1 || cnt == -(len - nidx)) nontrivial++;
    }
    void inplace(int fn, const std::string &s, long arg) {
        evals++;
        if (fn == 4 && arg > (long)s.size()) arg = (long)s.size();   // callers pass the number of data bytes
        long n = LA(c13_inplace(fn, s.data(), (long)s.size(), arg, out.data(), (long)out.size()));
        std::string what = std::string(kFn[fn]) + "(\"" + printable(s, 40) + "\"" + (fn == 4 ? ", " + std::to_string(arg) : "") + ")";
        VT_CHECK(ctx, n != -1, "mismatch", "inplace-null; " << what << " returned NULL");
        VT_CHECK(ctx, n != -2, "mismatch", "inplace-pointer; " << what << " did not return its argument");
        std::string got(out.data(), (size_t)n), want = ref_inplace(fn, s, arg);
        VT_CHECK(ctx, got.size() <= s.size(), "mismatch", "inplace-lengthened; " << what << " produced a longer string");
        VT_CHECK(ctx, got == want, "mismatch", "inplace-result:" << kFn[fn] << "; " << what << " gave \"" << printable(got) << "\" expected \"" << printable(want) << "\"");
        bool allblank = !s.empty();
        for (unsigned char c : s) if (!sp(c)) allblank = false;
        if (s.empty()) { ctx.label(std::string("empty:") + kFn[fn]); nontrivial++; }
        else if (allblank) { ctx.label(std::string("all-blank:") + kFn[fn]); nontrivial++; }
        else if (sp((unsigned char)s[0]) || sp((unsigned char)s.back())) nontrivial++;
    }

    static std::string pat(long n) { std::string s; for (long i = 0; i < n; i++) s.push_back((char)('a' + i % 26)); return s; }

    void item(const Op &op) {
        const std::string &n = op.name;
        if (n == "bounded") bounded((int)op.i(0), op.strs.empty() ? pat(op.i(1)) : op.s(0), op.i(2), op.i(3));
        else if (n == "substr") substr(op.strs.empty() ? pat(op.i(0)) : op.s(0), op.i(1), op.i(2));
        else if (n == "inplace") inplace((int)(((op.i(0) % 6) + 6) % 6), op.s(0), op.i(1));
        else ctx.fail("harness", "unknown op " + n);
    }
    // ---- exhaustive batches
    void batch(const Op &op) {
        long kind = op.i(0), part = op.i(1), nparts = op.i(2);
        long k = 0;
        if (kind == 0) {   // bounded copies: size x srclen x destlen, both functions
            for (long slen = 0; slen <= 24; slen++) for (long dlen = 0; dlen <= 24; dlen++) for (long size = 1; size <= slen + dlen + 3; size++) for (int cat = 0; cat < 2; cat++) {
                if (!cat && dlen) continue;
                if (k++ % nparts != part) continue;
                Op it = mk("bounded", {cat, slen, dlen, size});
                ctx.progress(op_to_text(it));
                item(it);
            }
        } else if (kind == 1) {   // substr: all (idx,cnt) around the string for lengths 0..12
            for (long len = 0; len <= 12; len++) for (long idx = -len - 2; idx <= len + 2; idx++) for (long cnt = -len - 2; cnt <= len + 2; cnt++) {
                if (k++ % nparts != part) continue;
                Op it = mk("substr", {len, idx, cnt});
                ctx.progress(op_to_text(it));
                item(it);
            }
        } else {   // in-place helpers: every string up to length L over an adversarial alphabet
            static const char alpha[] = {'a', 'B', ' ', '\t', '\n', '\x01', '\xe9'};
            long L = op.i(3);
            std::string s;
            std::function<void(long)> rec = [&](long depth) {
                if (k++ % nparts == part) {
                    for (int fn = 0; fn < 6; fn++) {
                        Op it = mk("inplace", {fn, (long)s.size()}, {s});
                        ctx.progress(op_to_text(it));
                        item(it);
                        if (fn == 4 && !s.empty()) { Op it2 = mk("inplace", {fn, (long)s.size() / 2}, {s}); ctx.progress(op_to_text(it2)); item(it2); }
                    }
                }
                if (depth == L) return;
                for (char c : alpha) { s.push_back(c); rec(depth + 1); s.pop_back(); }
            };
            rec(0);
        }
    }
};

const std::string kAlpha = std::string("abXY09 \t\n\r\v\f\x01\x7f\xe9\xff_");
rc::Gen<Case> gen_case() {
    return rc::gen::exec([]() {
        int k = (int)*range(0, 9);
        Case c;
        if (k < 3) {
            std::string src = *text_over(kAlpha, 300);
            long dlen = *range(0, 60), size;
            int cat = (int)*range(0, 1);
            int sk = (int)*range(0, 5);
            long base = cat ? dlen : 0;
            switch (sk) { case 0: size = 1; break; case 1: size = base + (long)src.size(); break; case 2: size = base + (long)src.size() + 1; break; case 3: size = base + (long)src.size() + 2; break; case 4: size = std::max<long>(1, base); break; default: size = *range(1, 400); }
            if (size < 1) size = 1;
            if (cat && *range(0, 11) == 0) {   // a destination that is already longer than 16 bits can count
                dlen = *rc::gen::elementOf(std::vector<long>{65534, 65535, 65536, 65537, 70001});
                size = dlen + *rc::gen::elementOf(std::vector<long>{1, 2, (long)src.size(), (long)src.size() + 1, (long)src.size() + 9});
            }
            for (auto &ch : src) if (!ch) ch = 'z';
            c.push_back(mk("bounded", {cat, 0, cat ? dlen : 0, size}, {src}));
        } else if (k < 5) {
            std::string s = *text_over(kAlpha, 200);
            long len = (long)s.size();
            c.push_back(mk("substr", {0, *range(-len - 3, len + 3), *range(-len - 3, len + 3)}, {s}));
        } else {
            std::string s;
            int shape = (int)*range(0, 5);
            if (shape == 0) s = *text_over(" \t\n\r", 60);
            else if (shape == 1) s = *text_over(" \t", 8) + *text_over(kAlpha, 40) + *text_over(" \n", 8);
            else s = *text_over(kAlpha, 2048);
            c.push_back(mk("inplace", {*range(0, 5), *range(0, (long)s.size())}, {s}));
        }
        return c;
    });
}

struct C13 : Harness {
    const char *property() const override { return "C13"; }
    const char *rule() const override { return ""; }
    std::vector<std::string> modes() const override { return {"enum", "random"}; }
    void run(const Case &c, Ctx &ctx) override {
        ht_install();
        c13_init();
        Runner r(ctx);
        for (size_t i = 0; i < c.size(); i++) {
            ctx.step((int)i);
            if (c[i].name == "batch") r.batch(c[i]); else r.item(c[i]);
        }
        if (!ht_overflowed() && ht_live_count() != 0) ctx.fail("leak", "heap-not-balanced; " + std::to_string(ht_live_count()) + " block(s) live after the calls");
        bool is_batch = !c.empty() && c[0].name == "batch";
        if (is_batch) { ctx.evals(r.evals); ctx.nontrivial_count(r.nontrivial); }
        else if (r.nontrivial) ctx.nontrivial();
        ctx.ok();
    }
    bool search(const std::string &mode, const std::function<bool(const Case &)> &try_case) override {
        if (mode == "enum") {
            long nw = atol(config().kv.count("nworkers") ? config().kv["nworkers"].c_str() : "1");
            long L = config().tier ? 7 : 5;
            bool ok = true;
            // kinds 0,1 are small: worker 0 and 1 take them whole; kind 2 is split over all workers
            if (config().worker == 0) ok &= try_case({mk("batch", {0, 0, 1, 0})});
            if (config().worker == (nw > 1 ? 1 : 0)) ok &= try_case({mk("batch", {1, 0, 1, 0})});
            ok &= try_case({mk("batch", {2, config().worker, nw, L})});
            return ok;
        }
        return rc_search("C13 random long inputs", gen_case(), try_case);
    }
};
}  // namespace
vt::Harness *vt::make_harness() { return new C13(); }
