/* C13 shim: bounded copy helpers, spiftool_substr and the in-place string helpers.
 * Destinations and in-place strings are exact-size heap blocks flush against ASan redzones. */
#include "config.h"
#include <libast.h>
#include <sanitizer/asan_interface.h>

int c13_init(void) { libast_debug_level = 0; return 1; }

/* safe_strncpy / safe_strncat.  dest is a `size`-byte block.  cat: the block starts with `dlen` prefix bytes
 * ('A'+i%26) followed by NUL when dlen < size, else it is completely filled (unterminated within size).
 * The rest of the block is filled with 0xAA.  The whole block after the call is copied to out. */
int c13_bounded(int cat, const char *src, long slen, long dlen, long size, char *out)
{
    char *s = (char *) malloc((size_t) slen + 1), *d = (char *) malloc((size_t) size);
    long i;
    int r;
    memcpy(s, src, (size_t) slen);
    s[slen] = 0;
    memset(d, 0xAA, (size_t) size);
    if (cat) {
        for (i = 0; i < dlen && i < size; i++) d[i] = (char) ('A' + i % 26);
        if (dlen < size) d[dlen] = 0;
    }
    r = cat ? spiftool_safe_strncat((spif_charptr_t) d, (spif_charptr_t) s, (spif_int32_t) size)
            : spiftool_safe_strncpy((spif_charptr_t) d, (spif_charptr_t) s, (spif_int32_t) size);
    memcpy(out, d, (size_t) size);
    free(s);
    free(d);
    return r;
}
/* substr: returns length of the slice (copied to out) or -1 when refused (NULL) */
long c13_substr(const char *str, long len, long idx, long cnt, char *out, long cap)
{
    char *s = (char *) malloc((size_t) len + 1), *r;
    long n = -1;
    memcpy(s, str, (size_t) len);
    s[len] = 0;
    r = (char *) spiftool_substr((spif_charptr_t) s, (spif_int32_t) idx, (spif_int32_t) cnt);
    if (r) { n = (long) strlen(r); if (n > cap) n = cap; memcpy(out, r, (size_t) n); free(r); }
    free(s);
    return n;
}
/* in-place helpers on an exact-size heap string: fn 0 chomp, 1 condense_whitespace, 2 downcase, 3 upcase,
 * 4 safe_str(arg), 5 strrev.  Result copied to out; returns its length, -1 if the helper returned NULL,
 * -2 if it returned a pointer that is not the (possibly moved) string */
long c13_inplace(int fn, const char *str, long len, long arg, char *out, long cap)
{
    char *s = (char *) malloc((size_t) len + 1), *r = NULL;
    long n;
    memcpy(s, str, (size_t) len);
    s[len] = 0;
    switch (fn) {
    case 0: r = (char *) spiftool_chomp((spif_charptr_t) s); break;
    case 1: r = (char *) spiftool_condense_whitespace((spif_charptr_t) s); s = r; break; /* REALLOCs its argument */
    case 2: r = (char *) spiftool_downcase_str((spif_charptr_t) s); break;
    case 3: r = (char *) spiftool_upcase_str((spif_charptr_t) s); break;
    case 4: r = (char *) spiftool_safe_str((spif_charptr_t) s, (unsigned short) arg); break;
    default: r = (char *) strrev(s); break;
    }
    if (!r) { free(s); return -1; }
    if (r != s) { free(s); return -2; }
    n = (long) strlen(s);
    if (n > cap) n = cap;
    memcpy(out, s, (size_t) n);
    free(s);
    return n;
}
