// C07 - mbuff is a faithful byte-sequence value under any history (embedded NULs included).
#include "../../engine/rcglue.hpp"
#include "tracker.hpp"
#include "../../engine/latrack.hpp"
#include <cmath>

extern "C" {
void c07_read_schedule(int, int); void c07_stream_offset(long);
int c07_init(void); int c07_new(int); int c07_new_from_ptr(int, const char *, long, int, int);
int c07_new_from_buff(int, const char *, long, long, int, int); int c07_new_from_fp(int, const char *, long, int, int, const char *);
int c07_new_from_fd(int, const char *, long, int, int, const char *); int c07_init_plain(int); int c07_done(int); int c07_del(int);
int c07_dup(int, int, int); int c07_type_ok(int); int c07_append(int, int); int c07_prepend(int, int);
int c07_append_ptr(int, const char *, long, int); int c07_prepend_ptr(int, const char *, long, int);
int c07_splice(int, long, long, int); int c07_splice_ptr(int, long, long, const char *, long, int);
int c07_trim(int); int c07_reverse(int); int c07_clear(int, int); int c07_sprintf(int, int, const char *, long, long, double);
long c07_index(int, int); long c07_rindex(int, int); long c07_find(int, int); long c07_find_ptr(int, const char *, long, int);
int c07_subbuff(int, long, long, int); char *c07_subbuff_to_ptr(int, long, long, long *); int c07_free(void *);
int c07_cmp(int, int, int, long); int c07_cmp_ptr(int, int, const char *, long, int, long);
long c07_get_len(int); long c07_get_size(int); long c07_show(int);
void c07_state(int, const char **, long *, long *, long *);
}
using namespace vt;
namespace {
enum { SUBJ = 0, H1 = 1, DUPS = 4, SUB = 5, NSLOT = 8 };
const char *kPosNames[] = {"farneg", "-len-1", "-len", "-1", "0", "1", "mid", "len-1", "len", "len+1", "far", "raw"};
long resolve_pos(long cls, long raw, long len) {
    switch (cls) { case 0: return -len - 7; case 1: return -len - 1; case 2: return -len; case 3: return -1; case 4: return 0; case 5: return 1;
    case 6: return len / 2; case 7: return len - 1; case 8: return len; case 9: return len + 1; case 10: return len + 9; default: return raw; }
}
long resolve_cnt(long cls, long raw, long rem) {
    if (rem < 0) rem = 0;
    switch (cls) { case 0: return -rem - 7; case 1: return -rem - 1; case 2: return -rem; case 3: return -1; case 4: return 0; case 5: return 1;
    case 6: return rem / 2; case 7: return rem - 1; case 8: return rem; case 9: return rem + 1; case 10: return rem + 9; default: return raw; }
}
std::string expand(const std::string &unit, long rep, const std::string &tail = "") {
    std::string s;
    if (rep < 0) rep = 0;
    s.reserve(unit.size() * (size_t)rep + tail.size());
    for (long i = 0; i < rep; i++) s += unit;
    s += tail;
    return s;
}
int sgn(int v) { return v < 0 ? -1 : (v > 0 ? 1 : 0); }
struct Model { bool exists = false; std::string b; };

struct Interp {
    Ctx &ctx;
    Model m[NSLOT];
    int cur = SUBJ, mutations = 0;
    bool interesting = false;
    explicit Interp(Ctx &c) : ctx(c) {}

    void check_slot(int i, const char *when) {
        if (!m[i].exists) return;
        const char *b; long len, size, alloc;
        c07_state(i, &b, &len, &size, &alloc);
        const std::string &t = m[i].b;
        if (b == nullptr) {
            VT_CHECK(ctx, len == 0 && size == 0, "invariant", "null-buffer-nonzero-bookkeeping; slot " << i << " " << when << " len=" << len << " size=" << size);
            VT_CHECK(ctx, t.empty(), "mismatch", "bytes; slot " << i << " " << when << ": object is empty (NULL buffer), model has " << t.size() << " bytes \"" << printable(t) << "\"");
            return;
        }
        VT_CHECK(ctx, len == (long)t.size(), "mismatch", "len; slot " << i << " " << when << ": len=" << len << " expected " << t.size());
        VT_CHECK(ctx, size >= len, "invariant", "capacity-below-length; slot " << i << " " << when << ": size=" << size << " len=" << len);
        VT_CHECK(ctx, alloc >= size, "invariant", "capacity-exceeds-allocation; slot " << i << " " << when << ": reported size=" << size << " real allocation=" << alloc);
        VT_CHECK(ctx, memcmp(b, t.data(), t.size()) == 0, "mismatch", "bytes; slot " << i << " " << when << ": got \"" << printable(std::string(b, (size_t)len)) << "\" expected \"" << printable(t) << "\"");
        VT_CHECK(ctx, c07_get_len(i) == len && c07_get_size(i) == size, "mismatch", "accessors; get_len/get_size disagree with the object; slot " << i);
    }
    void check_all(const char *when) { for (int i = 0; i < NSLOT; i++) check_slot(i, when); }
    struct Snap { const char *b; long len, size; std::string bytes; };
    Snap snap(int i) { Snap s; long a; c07_state(i, &s.b, &s.len, &s.size, &a); if (s.b) s.bytes.assign(s.b, (size_t)s.len); return s; }
    void require_unchanged(int i, const Snap &a, const char *what) {
        Snap b = snap(i);
        VT_CHECK(ctx, a.b == b.b && a.len == b.len && a.size == b.size && a.bytes == b.bytes, "mismatch",
                 "refused-op-changed-value; " << what << " was refused but the object changed (len " << a.len << "->" << b.len << ", size " << a.size << "->" << b.size << ")");
    }
    static bool is_ctor(const std::string &n) { return n.rfind("new", 0) == 0; }
    int other_slot(long k) { int s = H1 + (int)(((k % 3) + 3) % 3); return m[s].exists ? s : -1; }

    void construct(const Op &op, int i, bool reinit) {
        const std::string &k = op.name;
        Model &mo = m[i];
        int r = 1;
        if (k == "new") { if (!reinit) r = LA(c07_new(i)); mo.b.clear(); ctx.label("ctor:new"); }
        else if (k == "new_ptr") {
            std::string t = expand(op.s(0), op.i(0, 1));
            bool isnull = op.i(1) == 1;
            r = LA(c07_new_from_ptr(i, t.data(), (long)t.size(), isnull, reinit));
            mo.b = isnull ? std::string() : t;
            ctx.label("ctor:ptr");
            if (t.empty()) ctx.label("ctor:ptr-zero-length");
        } else if (k == "new_buff") {
            std::string t = expand(op.s(0), op.i(0, 1));
            long mode = op.i(1), n = (long)t.size(), size;
            bool isnull = mode >= 4;
            switch (mode) { case 0: size = n; break; case 1: size = n + 1; break; case 2: size = n + 1 + op.i(2) % 64; break; case 3: size = n ? op.i(2) % n : 0; break; default: size = op.i(2) % 100; break; }
            if (size < 0) size = 0;
            r = LA(c07_new_from_buff(i, t.data(), n, size, isnull, reinit));
            mo.b = isnull ? std::string() : t;   // len is taken as given; size = max(size, len)
            ctx.label("ctor:buff");
            ctx.label("ctor:buff-mode" + std::to_string(isnull ? 4 : mode));
            if (r) {
                const char *b; long len, sz, alloc;
                c07_state(i, &b, &len, &sz, &alloc);
                long want = std::max(size, (long)mo.b.size());
                VT_CHECK(ctx, sz == want, "mismatch", "buff-capacity; new_from_buff(len=" << n << ",size=" << size << ") reports capacity " << sz << " expected " << want);
            }
        } else if (k == "new_fp" || k == "new_fd") {
            std::string t = expand(op.s(0), op.i(0, 1), op.s(1));
            int kind = (int)(op.i(1) & 1);
            // harness-owned read(): short reads and EINTR on pipes (the kernel may split a transfer any way it likes)
            static const int caps[] = {0, 1, 100, 4095, 5000};
            int cap = (k == "new_fd" && kind == 0) ? caps[((op.i(2) % 5) + 5) % 5] : 0, eintr = (k == "new_fd" && kind == 0) ? (int)(((op.i(3) % 3) + 3) % 3) : 0;
            if (cap == 1 && t.size() > 6000) cap = 100;
            c07_read_schedule(cap, eintr);
            if (cap) ctx.label("fd:short-reads");
            if (eintr) ctx.label("fd:EINTR");
            // a regular file handed over with its position somewhere inside: the constructor may refuse it, or read what is left
            long off = 0;
            if (k == "new_fp" && kind == 1 && t.size() > 1 && (op.i(1) & 6) == 2) { off = 1 + (((op.i(2) % (long)(t.size() - 1)) + (long)(t.size() - 1)) % (long)(t.size() - 1)); c07_stream_offset(off); ctx.label("stream-positioned-inside-the-file"); }
            r = k == "new_fp" ? LA(c07_new_from_fp(i, t.data(), (long)t.size(), kind, reinit, config().scratch_dir.c_str()))
                              : LA(c07_new_from_fd(i, t.data(), (long)t.size(), kind, reinit, config().scratch_dir.c_str()));
            VT_CHECK(ctx, r >= 0, "harness", "could not create descriptor");
            std::string which = k.substr(4);
            ctx.label("ctor:" + which);
            ctx.label("ctor:" + which + (kind ? "-regular-file" : "-pipe"));
            if (t.size() > 4096) { ctx.label("stream>4096:" + which + (kind ? "-file" : "-pipe")); interesting = true; }
            if (t.empty()) {
                // empty input: the constructor may refuse (NULL/FALSE) or produce the empty buffer
                ctx.label("stream-empty:" + which);
                if (r == 0) { if (reinit) LA(c07_init_plain(i)); else LA(c07_new(i)); }
                mo.b.clear();
                mo.exists = true;
                return;
            }
            if (off > 0) {
                if (r == 0) { ctx.label("stream-positioned:refused"); if (reinit) LA(c07_init_plain(i)); else LA(c07_new(i)); mo.b.clear(); mo.exists = true; return; }
                t = t.substr((size_t)off);
            }
            mo.b = t;
        } else ctx.fail("harness", "unknown constructor " + k);
        VT_CHECK(ctx, r == 1, "mismatch", "ctor-failed; constructor " << k << " returned failure");
        mo.exists = true;
        if (reinit) ctx.label("reinit-after-done");
    }

    void run(const Case &c) {
        ht_install();
        tracker_begin(ctx);
        size_t at = 0;
        c07_init();
        if (at < c.size() && is_ctor(c[at].name)) { ctx.step((int)at); ht_set_tag((int)at); construct(c[at], SUBJ, false); at++; }
        else { ht_set_tag(-1); construct(mk("new"), SUBJ, false); }
        check_all("after construction");
        VT_CHECK(ctx, LA(c07_type_ok(SUBJ)), "mismatch", "type; type() does not identify the class");
        for (; at < c.size(); at++) {
            ctx.step((int)at);
            ht_set_tag((int)at);
            apply(c[at]);
            check_all(("after " + c[at].name).c_str());
        }
        ctx.step((int)c.size());
        for (int i = 0; i < NSLOT; i++) if (m[i].exists) { int r = LA(c07_del(i)); VT_CHECK(ctx, r == 1, "mismatch", "del; del returned FALSE"); m[i].exists = false; }
        if (tracker_final(ctx)) {
        } else if (!ht_overflowed() && ht_live_count() != 0) {
            char buf[256];
            ht_describe(buf, sizeof buf);
            ctx.fail("leak", "heap-not-balanced; " + std::to_string(ht_live_count()) + " block(s), " + std::to_string(ht_live_bytes()) + " bytes still live after deleting every object: " + buf);
        }
        if (mutations >= 3 && interesting) ctx.nontrivial();
        ctx.ok();
    }
    void pos_label(const char *opn, long cls) {
        if (cls >= 0 && cls <= 10) { ctx.label(std::string(opn) + ":idx=" + kPosNames[cls]); if (cls == 1 || cls == 2 || cls == 3 || cls == 7 || cls == 8 || cls == 9) interesting = true; }
    }
    void adopt(int i) { const char *b; long len, size, alloc; c07_state(i, &b, &len, &size, &alloc); if (!b) { m[i].b.clear(); return; } VT_CHECK(ctx, len >= 0 && alloc >= len, "invariant", "allocation-too-small; len=" << len << " alloc=" << alloc); m[i].b.assign(b, (size_t)len); }

    void apply(const Op &op) {
        const std::string &n = op.name;
        Model &mo = m[cur];
        const long len = (long)mo.b.size();
        bool was_null = false;
        { const char *b; long l, s, a; c07_state(cur, &b, &l, &s, &a); was_null = (b == nullptr); }
        if (n == "helper") {
            int s = H1 + (int)(((op.i(0) % 3) + 3) % 3);
            if (m[s].exists) { LA(c07_del(s)); m[s].exists = false; }
            if (op.i(1) == 0) { std::string t = expand(op.s(0), op.i(2, 1)); LA(c07_new_from_ptr(s, t.data(), (long)t.size(), 0, 0)); m[s].b = t; }
            else { LA(c07_new(s)); m[s].b.clear(); ctx.label("helper:empty-new"); }
            m[s].exists = true;
            return;
        }
        if (n == "append" || n == "prepend") {
            int o = other_slot(op.i(0));
            if (((op.i(0) % 7) + 7) % 7 == 6 && mo.b.size() <= 32768) { o = cur; ctx.label(n + ":the-same-object-on-both-sides"); interesting = true; }   // (bounded: every self-append doubles the text)   // x.append(x): a value operation like any other
            Snap before = snap(cur);
            int r = n == "append" ? LA(c07_append(cur, o)) : LA(c07_prepend(cur, o));
            if (o < 0) { ctx.label(n + ":null-other"); VT_CHECK(ctx, r == 0, "mismatch", "null-other-accepted; " << n << "(NULL) returned TRUE"); require_unchanged(cur, before, n.c_str()); return; }
            VT_CHECK(ctx, r == 1, "mismatch", "return; " << n << " returned FALSE");
            { std::string ob = m[o].b; if (n == "append") mo.b += ob; else mo.b = ob + mo.b; }
            mutations++;
            if (was_null && !m[o].b.empty()) { ctx.label("first-growth-on-empty:" + n); interesting = true; }
            return;
        }
        if (n == "append_ptr" || n == "prepend_ptr") {
            bool isnull = op.i(1) == 1;
            std::string t = expand(op.s(0), op.i(0, 1));
            Snap before = snap(cur);
            int r = n == "append_ptr" ? LA(c07_append_ptr(cur, t.data(), (long)t.size(), isnull)) : LA(c07_prepend_ptr(cur, t.data(), (long)t.size(), isnull));
            if (isnull) { ctx.label(n + ":null"); VT_CHECK(ctx, r == 0, "mismatch", "null-other-accepted; " << n << "(NULL) returned TRUE"); require_unchanged(cur, before, n.c_str()); return; }
            VT_CHECK(ctx, r == 1, "mismatch", "return; " << n << " returned FALSE");
            if (n == "append_ptr") mo.b += t; else mo.b = t + mo.b;
            mutations++;
            if (was_null && !t.empty()) { ctx.label("first-growth-on-empty:" + n); interesting = true; }
            if (t.find('\0') != std::string::npos) ctx.label("bytes:embedded-NUL");
            return;
        }
        if (n == "splice" || n == "splice_ptr") {
            long icls = op.i(0), ccls = op.i(2);
            long idx = resolve_pos(icls, op.i(1), len);
            long nidx = idx < 0 ? idx + len : idx;
            long cnt = resolve_cnt(ccls, op.i(3), len - nidx);
            std::string repl;
            int o = -1;
            bool isnull = false;
            if (n == "splice") { o = other_slot(op.i(4)); if (((op.i(4) % 7) + 7) % 7 == 6 && mo.b.size() <= 32768) { o = cur; ctx.label("splice:the-same-object-on-both-sides"); interesting = true; } if (o >= 0) repl = m[o].b; }
            else { isnull = op.i(4) == 1; if (!isnull) repl = expand(op.s(0), op.i(5, 1)); }
            pos_label("splice", icls);
            Snap before = snap(cur);
            int r = n == "splice" ? LA(c07_splice(cur, idx, cnt, o)) : LA(c07_splice_ptr(cur, idx, cnt, repl.data(), (long)repl.size(), isnull));
            bool pos_ok = nidx >= 0 && nidx < len;
            if (!pos_ok) { ctx.label("splice:refused-position"); VT_CHECK(ctx, r == 0, "mismatch", "out-of-range-accepted; splice(idx=" << idx << ",cnt=" << cnt << ") on len " << len << " returned TRUE"); require_unchanged(cur, before, "splice"); return; }
            if (cnt < 0) { ctx.label("safety_only:splice-negative-count"); if (r == 0) { require_unchanged(cur, before, "splice"); return; } adopt(cur); mutations++; return; }
            if (cnt > len - nidx) { ctx.label("splice:refused-count"); VT_CHECK(ctx, r == 0, "mismatch", "out-of-range-accepted; splice(idx=" << idx << ",cnt=" << cnt << ") on len " << len << " returned TRUE"); require_unchanged(cur, before, "splice"); return; }
            VT_CHECK(ctx, r == 1, "mismatch", "in-range-refused; splice(idx=" << idx << ",cnt=" << cnt << ") on len " << len << " returned FALSE");
            mo.b = mo.b.substr(0, (size_t)nidx) + repl + mo.b.substr((size_t)(nidx + cnt));
            mutations++;
            if (nidx == len - 1) ctx.label("splice:at-len-1");
            if (cnt == len - nidx) ctx.label("splice:cnt=rest");
            return;
        }
        if (n == "trim") {
            int r = LA(c07_trim(cur));
            size_t a = 0, b = mo.b.size();
            auto sp = [](unsigned char ch) { return ch == ' ' || (ch >= 9 && ch <= 13); };
            while (a < b && sp((unsigned char)mo.b[a])) a++;
            while (b > a && sp((unsigned char)mo.b[b - 1])) b--;
            if (mo.b.empty()) ctx.label("trim:empty"); else VT_CHECK(ctx, r == 1, "mismatch", "return; trim returned FALSE");
            if (a == b && !mo.b.empty()) { ctx.label("trim:all-blank"); interesting = true; }
            mo.b = mo.b.substr(a, b - a);
            mutations++;
            return;
        }
        if (n == "reverse") {
            int r = LA(c07_reverse(cur));
            if (mo.b.empty()) ctx.label("reverse:empty"); else VT_CHECK(ctx, r == 1, "mismatch", "return; reverse returned FALSE");
            std::reverse(mo.b.begin(), mo.b.end());
            mutations++;
            return;
        }
        if (n == "clear") {
            int ch = (int)(op.i(0) & 0xff);
            int r = LA(c07_clear(cur, ch));
            if (mo.b.empty()) ctx.label("clear:empty"); else VT_CHECK(ctx, r == 1, "mismatch", "return; clear returned FALSE");
            for (auto &c2 : mo.b) c2 = (char)ch;
            mutations++;
            return;
        }
        if (n == "sprintf") {
            int kind = (int)(((op.i(0) % 6) + 6) % 6);
            std::string t = expand(op.s(0), op.i(3, 1));
            for (auto &ch : t) { if (ch == 0) ch = 'n'; if (kind == 4 && ch == '%') ch = 'p'; }
            long num = op.i(1);
            double d = (double)op.i(2) / 7.0;
            char buf[128];
            std::string want;
            switch (kind) { case 0: want = ""; break; case 1: want = t; break; case 2: snprintf(buf, sizeof buf, "%d", (int)num); want = buf; break;
            case 3: snprintf(buf, sizeof buf, "%5.2f", d); want = buf; break; case 4: want = t; break; default: snprintf(buf, sizeof buf, "|%ld>", num); want = "<" + t + buf; break; }
            int r = LA(c07_sprintf(cur, kind, t.data(), (long)t.size(), num, d));
            if (!want.empty()) VT_CHECK(ctx, r == 1, "mismatch", "return; sprintf returned FALSE for a non-empty result");
            mo.b = want;
            mutations++;
            ctx.label("sprintf");
            return;
        }
        if (n == "done") {
            int r = LA(c07_done(cur));
            VT_CHECK(ctx, r == 1, "mismatch", "return; done returned FALSE");
            mo.b.clear();
            const char *b; long l, s, a;
            c07_state(cur, &b, &l, &s, &a);
            VT_CHECK(ctx, b == nullptr && l == 0 && s == 0, "invariant", "done-left-state; after done(): buff=" << (const void *)b << " len=" << l << " size=" << s);
            ctx.label("done");
            mutations++;
            return;
        }
        if (n.rfind("re", 0) == 0 && is_ctor(n.substr(2))) { LA(c07_done(cur)); Op c2 = op; c2.name = n.substr(2); construct(c2, cur, true); mutations++; interesting = true; return; }
        if (n == "dup") {
            int dst = (cur == SUBJ) ? DUPS : SUBJ;
            if (m[dst].exists) { LA(c07_del(dst)); m[dst].exists = false; }
            int r = LA(c07_dup(cur, dst, (int)(op.i(0) & 1)));
            VT_CHECK(ctx, r == 1, "mismatch", "return; dup returned NULL");
            m[dst].exists = true; m[dst].b = mo.b;
            ctx.label("dup");
            if (mo.b.empty()) ctx.label("dup:empty");
            return;
        }
        if (n == "swap") { if (m[DUPS].exists && m[SUBJ].exists) { cur = cur == SUBJ ? DUPS : SUBJ; ctx.label("op-on-dup"); interesting = true; } return; }
        if (n == "index" || n == "rindex") {
            int ch;
            // symbolic byte: 0 = a byte that is present, 1 = a byte that is absent, 2 = raw
            long kind = op.i(0);
            if (kind == 0 && len > 0) ch = (unsigned char)mo.b[(size_t)(((op.i(1) % len) + len) % len)];
            else if (kind == 1) { ch = -1; for (int c = 255; c >= 0; c--) if (mo.b.find((char)c) == std::string::npos) { ch = c; break; } if (ch < 0) ch = 0; }
            else ch = (int)(op.i(1) & 0xff);
            long r = n == "index" ? LA(c07_index(cur, ch)) : LA(c07_rindex(cur, ch));
            size_t p = n == "index" ? mo.b.find((char)ch) : mo.b.rfind((char)ch);
            long want = p == std::string::npos ? len : (long)p;
            if (p == std::string::npos) { ctx.label("absent-byte:" + n); if (len > 0) interesting = true; }
            if (ch == 0) ctx.label("search-for-NUL");
            VT_CHECK(ctx, r == want, "mismatch", n << "; " << n << "(0x" << std::hex << ch << std::dec << ") returned " << r << " expected " << want << " (len " << len << ")");
            return;
        }
        if (n == "find" || n == "find_ptr") {
            std::string needle;
            long r;
            if (n == "find") {
                int o = other_slot(op.i(0));
                if (o < 0) { r = LA(c07_find(cur, -1)); VT_CHECK(ctx, r == -1, "mismatch", "find; find(NULL) returned " << r << " expected -1"); return; }
                needle = m[o].b;
                if (needle.empty()) { ctx.label("safety_only:find-empty-needle"); LA(c07_find(cur, o)); return; }
                r = LA(c07_find(cur, o));
            } else {
                if (op.i(0) == 0 && len > 0) { long a = ((op.i(1) % len) + len) % len; long l2 = 1 + ((op.i(2) % 5) + 5) % 5; needle = mo.b.substr((size_t)a, (size_t)l2); }
                else needle = expand(op.s(0), 1);
                if (needle.empty()) { ctx.label("safety_only:find-empty-needle"); LA(c07_find_ptr(cur, needle.data(), 0, 0)); return; }
                r = LA(c07_find_ptr(cur, needle.data(), (long)needle.size(), 0));
            }
            size_t p = mo.b.find(needle);
            long want = p == std::string::npos ? len : (long)p;
            if (p == std::string::npos) ctx.label("notfound:find"); else ctx.label("found:find");
            VT_CHECK(ctx, r == want, "mismatch", n << "; find(\"" << printable(needle, 30) << "\") returned " << r << " expected " << want << " (len " << len << ")");
            return;
        }
        if (n == "subbuff" || n == "subbuff_ptr") {
            long icls = op.i(0), ccls = op.i(2);
            long idx = resolve_pos(icls, op.i(1), len);
            long nidx = idx < 0 ? idx + len : idx;
            long cnt = resolve_cnt(ccls, op.i(3), len - nidx);
            pos_label("subbuff", icls);
            bool ok = nidx >= 0 && nidx < len;
            long ncnt = cnt;
            if (ok) { if (ncnt <= 0) ncnt = len - nidx + ncnt; if (ncnt < 0) ok = false; }
            if (ok && ncnt > len - nidx) ncnt = len - nidx;
            Snap before = snap(cur);
            if (n == "subbuff") {
                if (m[SUB].exists) { LA(c07_del(SUB)); m[SUB].exists = false; }
                int r = LA(c07_subbuff(cur, idx, cnt, SUB));
                if (!ok) { ctx.label("subbuff:refused"); VT_CHECK(ctx, r == 0, "mismatch", "out-of-range-accepted; subbuff(idx=" << idx << ",cnt=" << cnt << ") on len " << len << " returned an object"); if (r) LA(c07_del(SUB)); }
                else { VT_CHECK(ctx, r == 1, "mismatch", "in-range-refused; subbuff(idx=" << idx << ",cnt=" << cnt << ") on len " << len << " returned NULL"); m[SUB].exists = true; m[SUB].b = mo.b.substr((size_t)nidx, (size_t)ncnt); }
            } else {
                long alloc = 0;
                char *p = LA(c07_subbuff_to_ptr(cur, idx, cnt, &alloc));
                if (!ok) { ctx.label("subbuff:refused"); VT_CHECK(ctx, p == nullptr, "mismatch", "out-of-range-accepted; subbuff_to_ptr(idx=" << idx << ",cnt=" << cnt << ") on len " << len << " returned a block"); }
                else {
                    VT_CHECK(ctx, p != nullptr, "mismatch", "in-range-refused; subbuff_to_ptr(idx=" << idx << ",cnt=" << cnt << ") on len " << len << " returned NULL");
                    std::string want = mo.b.substr((size_t)nidx, (size_t)ncnt);
                    VT_CHECK(ctx, alloc >= (long)want.size(), "invariant", "subbuff_to_ptr-allocation; " << alloc << " bytes for " << want.size());
                    VT_CHECK(ctx, std::string(p, want.size()) == want, "mismatch", "subbuff_to_ptr; got \"" << printable(std::string(p, want.size())) << "\" expected \"" << printable(want) << "\"");
                }
                c07_free(p);
            }
            require_unchanged(cur, before, "subbuff");
            return;
        }
        if (n == "cmp" || n == "cmp_ptr") {
            int kind = (int)(((op.i(0) % 3) + 3) % 3);
            std::string other;
            bool isnull = false;
            int o = -1;
            if (n == "cmp") { o = other_slot(op.i(2)); if (o < 0) isnull = true; else other = m[o].b; }
            else {
                kind = kind == 2 ? 0 : kind;
                switch (((op.i(2) % 5) + 5) % 5) {
                case 0: other = mo.b; break;
                case 1: other = mo.b.substr(0, mo.b.size() / 2); break;
                case 2: other = mo.b + expand(op.s(0), 1) + "x"; break;
                case 3: other = mo.b; if (!other.empty()) other[other.size() - 1] = (char)(other.back() ^ 0x55); break;
                default: other = expand(op.s(0), 1); break;
                }
                if (op.i(3) == 1) isnull = true;
            }
            long common = (long)std::min(mo.b.size(), other.size());
            long nn = common;
            switch (((op.i(1) % 4) + 4) % 4) { case 0: nn = common; break; case 1: nn = common / 2; break; case 2: nn = common ? 1 : 0; break; default: nn = common; }
            // ncmp between two objects knows both lengths: a count beyond the shorter one is cut back to it
            if (n == "cmp" && kind == 1 && !isnull && (op.i(1) % 4 + 4) % 4 == 3) {
                long longer = (long)std::max(mo.b.size(), other.size());
                nn = (op.i(2) & 1) ? common + 1 : longer + (op.i(2) & 2 ? 3 : 0);
                if (nn > common) { ctx.label("ncmp:count-beyond-the-shorter-buffer"); if (mo.b.size() != other.size()) interesting = true; }
            }
            int r, want;
            if (n == "cmp") {
                r = LA(c07_cmp(kind, cur, o, nn));
                if (isnull) { want = 1; ctx.label("cmp:null-other"); }
                else if (kind == 1) want = sgn(memcmp(mo.b.data(), other.data(), (size_t)std::min(nn, common)));
                else { want = sgn(memcmp(mo.b.data(), other.data(), (size_t)common)); if (!want) want = mo.b.size() < other.size() ? -1 : mo.b.size() > other.size() ? 1 : 0; if (mo.b.size() != other.size() && !memcmp(mo.b.data(), other.data(), (size_t)common)) { ctx.label("cmp:proper-prefix-pair"); interesting = true; } }
            } else {
                // the pointer variants cannot know the other side's length: n <= both lengths (carve-out)
                r = LA(c07_cmp_ptr(kind, cur, other.data(), (long)other.size(), isnull, nn));
                if (isnull) { want = 1; ctx.label("cmp:null-other"); }
                else want = sgn(memcmp(mo.b.data(), other.data(), (size_t)nn));
            }
            ctx.label(std::string(n) + ":kind" + std::to_string(kind));
            VT_CHECK(ctx, r == want, "mismatch", "cmp; " << n << " kind " << kind << " n=" << nn << " \"" << printable(mo.b, 30) << "\"(" << mo.b.size() << ") vs \"" << printable(other, 30) << "\"(" << other.size() << ") returned " << r << " expected " << want);
            return;
        }
        if (n == "show") { long r = LA(c07_show(cur)); VT_CHECK(ctx, r > 0, "mismatch", "show; show() returned no description"); return; }
        if (is_ctor(n)) return;
        ctx.fail("harness", "unknown op " + n);
    }
};

rc::Gen<std::string> gen_unit() {
    return rc::gen::exec([]() {
        int k = (int)*range(0, 9);
        if (k == 0) return std::string();
        std::string s;
        long n = k <= 2 ? 1 : *range(1, 10);
        for (long i = 0; i < n; i++) {
            int c = (int)*range(0, 9);
            if (c < 3) s.push_back('\0');                       // embedded NULs are deliberately frequent
            else if (c < 5) s.push_back(*rc::gen::elementOf(std::string(" \t\n\r")));
            else if (c < 7) s.push_back((char)*range(128, 255));
            else s.push_back((char)*range(1, 127));
        }
        return s;
    });
}
rc::Gen<long> gen_rep() { return rc::gen::exec([]() -> long { int k = (int)*range(0, 19); if (k < 16) return 1; if (k < 18) return *range(2, 40); return *range(300, 5000); }); }
rc::Gen<Op> gen_stream_ctor(const std::string &prefix) {
    return rc::gen::exec([=]() {
        bool fp = *range(0, 1) == 1;
        Op o;
        o.name = prefix + (fp ? "new_fp" : "new_fd");
        int k = (int)*range(0, 9);
        std::string unit(1, (char)*range(0, 255));
        long rep;
        static const long L[] = {0, 1, 100, 4095, 4096, 4097, 8191, 8192, 8193, 12293, 70000};
        if (k < 3) { unit = *gen_unit(); rep = *range(0, 6); } else rep = *rc::gen::elementOf(std::vector<long>(L, L + 11));
        o.ints = {rep, *range(0, 1), *range(0, 2) == 0 ? *range(1, 4) : 0, *range(0, 3) == 0 ? *range(1, 2) : 0};
        if (fp && *range(0, 5) == 0) { o.ints[1] = 3; o.ints[2] = *range(0, 5000); }   // regular file (bit 0) handed over positioned inside (bits 1-2 == 2... i.e. value 3)
        o.strs = {unit, *range(0, 2) == 0 ? *gen_unit() : std::string()};
        return o;
    });
}
rc::Gen<Op> gen_ctor(const std::string &prefix) {
    return rc::gen::exec([=]() {
        int k = (int)*range(0, 11);
        Op o;
        if (k <= 3) { o.name = prefix + "new"; return o; }
        if (k <= 5) { o.name = prefix + "new_ptr"; o.strs = {*gen_unit()}; o.ints = {*gen_rep(), *range(0, 11) == 0 ? 1 : 0}; return o; }
        if (k <= 7) { o.name = prefix + "new_buff"; o.strs = {*gen_unit()}; o.ints = {*gen_rep(), *range(0, 4), *range(0, 1000)}; return o; }
        return *gen_stream_ctor(prefix);
    });
}
rc::Gen<long> gen_poscls() { return rc::gen::exec([]() -> long { return *range(0, 4) == 0 ? 11 : *range(0, 10); }); }
rc::Gen<Op> gen_op() {
    return rc::gen::exec([]() {
        int k = (int)*range(0, 99);
        Op o;
        if (k < 5) { o.name = "helper"; o.ints = {*range(0, 2), *range(0, 4) == 0 ? 1 : 0, *gen_rep()}; o.strs = {*gen_unit()}; return o; }
        if (k < 11) { o.name = *range(0, 1) ? "append" : "prepend"; o.ints = {*range(0, 6) == 6 ? 6 : *range(0, 2)}; return o; }
        if (k < 27) { o.name = *range(0, 1) ? "append_ptr" : "prepend_ptr"; o.ints = {*gen_rep(), *range(0, 14) == 0 ? 1 : 0}; o.strs = {*gen_unit()}; return o; }
        if (k < 41) {
            bool ptr = *range(0, 1) == 1;
            o.name = ptr ? "splice_ptr" : "splice";
            o.ints = {*gen_poscls(), *range(-20, 20), *gen_poscls(), *range(-20, 20), ptr ? (*range(0, 9) == 0 ? 1 : 0) : (*range(0, 7) == 7 ? 6 : *range(0, 2)), *gen_rep()};
            if (ptr) o.strs = {*gen_unit()};
            return o;
        }
        if (k < 45) { o.name = "trim"; return o; }
        if (k < 48) { o.name = "reverse"; return o; }
        if (k < 51) { o.name = "clear"; o.ints = {*range(0, 255)}; return o; }
        if (k < 54) { o.name = "sprintf"; o.ints = {*range(0, 5), *range(-100000, 100000), *range(-5000, 5000), *gen_rep()}; o.strs = {*gen_unit()}; return o; }
        if (k < 56) { o.name = "done"; return o; }
        if (k < 59) { return *gen_ctor("re"); }
        if (k < 62) { o.name = "dup"; o.ints = {*range(0, 1)}; return o; }
        if (k < 65) { o.name = "swap"; return o; }
        if (k < 75) { o.name = *range(0, 1) ? "index" : "rindex"; o.ints = {*range(0, 2), *range(0, 1000)}; return o; }
        if (k < 81) { bool ptr = *range(0, 2) != 0; o.name = ptr ? "find_ptr" : "find"; if (ptr) { o.ints = {*range(0, 1), *range(0, 1000), *range(0, 4)}; o.strs = {*gen_unit()}; } else o.ints = {*range(0, 2)}; return o; }
        if (k < 91) { o.name = *range(0, 1) ? "subbuff" : "subbuff_ptr"; o.ints = {*gen_poscls(), *range(-20, 20), *gen_poscls(), *range(-20, 20)}; return o; }
        if (k < 99) { bool ptr = *range(0, 1) == 1; o.name = ptr ? "cmp_ptr" : "cmp"; o.ints = {*range(0, 2), *range(0, 3), ptr ? *range(0, 4) : *range(0, 2), ptr ? (*range(0, 14) == 0 ? 1 : 0) : 0}; if (ptr) o.strs = {*gen_unit()}; return o; }
        o.name = "show";
        return o;
    });
}
rc::Gen<Case> gen_case() {
    return rc::gen::exec([]() {
        Case c;
        c.push_back(*gen_ctor(""));
        long nh = *range(0, 3);
        for (long h = 0; h < nh; h++) c.push_back(mk("helper", {h, *range(0, 5) == 0 ? 1 : 0, *gen_rep()}, {*gen_unit()}));
        auto ops = *rc::gen::container<std::vector<Op>>(gen_op());
        for (auto &o : ops) c.push_back(o);
        return c;
    });
}
struct C07 : Harness {
    const char *property() const override { return "C07"; }
    const char *rule() const override { return ""; }
    void run(const Case &c, Ctx &ctx) override { Interp in(ctx); in.run(c); }
    bool search(const std::string &, const std::function<bool(const Case &)> &try_case) override {
        return rc_search("C07 mbuff history vs byte-sequence model", gen_case(), try_case);
    }
};
}  // namespace
vt::Harness *vt::make_harness() { return new C07(); }
