/* C07 shim: thin C access to spif_mbuff_*.  Every byte block handed to libast is an exact-size heap
 * block (no terminator, no slack) so that the byte after it is an ASan redzone. */
#include "config.h"
#include <libast.h>
extern unsigned int vt_base_level;   /* engine/tracker_shim.c */
#include <sanitizer/asan_interface.h>
#include <sanitizer/allocator_interface.h>

#define NSLOT 8
static spif_mbuff_t slot[NSLOT];

static spif_byteptr_t exact(const char *t, long n)
{
    spif_byteptr_t p = (spif_byteptr_t) malloc(n > 0 ? (size_t) n : 1);
    if (n > 0) memcpy(p, t, (size_t) n);
    if (n <= 0) { /* hand out a pointer whose every byte is a redzone */ ASAN_POISON_MEMORY_REGION(p, 1); }
    return p;
}
static void release(spif_byteptr_t p, long n) { if (p && n <= 0) ASAN_UNPOISON_MEMORY_REGION(p, 1); free(p); }

int c07_init(void) { memset(slot, 0, sizeof(slot)); libast_debug_level = vt_base_level; return 1; }
int c07_new(int i) { slot[i] = spif_mbuff_new(); return slot[i] != NULL; }
int c07_new_from_ptr(int i, const char *t, long n, int isnull, int reinit)
{
    spif_byteptr_t p = isnull ? NULL : exact(t, n);
    int r;
    if (reinit) r = spif_mbuff_init_from_ptr(slot[i], p, n);
    else { slot[i] = spif_mbuff_new_from_ptr(p, n); r = slot[i] != NULL; }
    release(p, n);
    return r;
}
int c07_new_from_buff(int i, const char *t, long n, long size, int isnull, int reinit)
{
    spif_byteptr_t p = isnull ? NULL : exact(t, n);
    int r;
    if (reinit) r = spif_mbuff_init_from_buff(slot[i], p, n, size);
    else { slot[i] = spif_mbuff_new_from_buff(p, n, size); r = slot[i] != NULL; }
    release(p, n);
    return r;
}
/* ---- harness-owned read(): the descriptor constructors must cope with short reads and EINTR (the kernel
 * may split a transfer any way it likes).  Linked with -Wl,--wrap=read; only the descriptor under test is affected. */
extern ssize_t __real_read(int, void *, size_t);
static int rd_fd = -1, rd_cap, rd_eintr;
ssize_t __wrap_read(int fd, void *buf, size_t n)
{
    if (fd == rd_fd) {
        if (rd_eintr > 0) { rd_eintr--; errno = EINTR; return -1; }
        if (rd_cap > 0 && n > (size_t) rd_cap) n = (size_t) rd_cap;
    }
    return __real_read(fd, buf, n);
}
void c07_read_schedule(int cap, int eintr) { rd_cap = cap; rd_eintr = eintr; }

static long stream_off;
void c07_stream_offset(long off) { stream_off = off; }
static int make_fd(const char *data, long n, int kind, const char *dir)
{
    if (kind == 0) {
        int p[2];
        if (pipe(p)) return -1;
        if (n <= 60000) {
            long w = 0;
            while (w < n) { ssize_t k = write(p[1], data + w, (size_t) (n - w)); if (k <= 0) break; w += k; }
            close(p[1]);
        } else {
            pid_t pid = fork();
            if (pid == 0) {
                long w = 0;
                close(p[0]);
                while (w < n) { ssize_t k = write(p[1], data + w, (size_t) (n - w)); if (k <= 0) break; w += k; }
                _exit(0);
            }
            close(p[1]);
        }
        return p[0];
    } else {
        char path[512];
        int fd;
        long w = 0;
        snprintf(path, sizeof(path), "%s/c07-XXXXXX", dir);
        fd = mkstemp(path);
        if (fd < 0) return -1;
        unlink(path);
        while (w < n) { ssize_t k = write(fd, data + w, (size_t) (n - w)); if (k <= 0) break; w += k; }
        lseek(fd, stream_off > 0 && stream_off < n ? (off_t) stream_off : 0, SEEK_SET);   /* normally the start; on request somewhere inside */
        stream_off = 0;
        return fd;
    }
}
/* returns 1 object, 0 constructor refused (NULL / FALSE), -1 harness trouble */
int c07_new_from_fp(int i, const char *data, long n, int kind, int reinit, const char *dir)
{
    int fd = make_fd(data, n, kind, dir), r;
    FILE *fp;
    if (fd < 0) return -1;
    fp = fdopen(fd, "r");
    if (reinit) r = spif_mbuff_init_from_fp(slot[i], fp);
    else { slot[i] = spif_mbuff_new_from_fp(fp); r = slot[i] != NULL; }
    fclose(fp);
    while (waitpid(-1, NULL, WNOHANG) > 0) {}
    return r;
}
int c07_new_from_fd(int i, const char *data, long n, int kind, int reinit, const char *dir)
{
    int fd = make_fd(data, n, kind, dir), r;
    if (fd < 0) return -1;
    rd_fd = fd;
    if (reinit) r = spif_mbuff_init_from_fd(slot[i], fd);
    else { slot[i] = spif_mbuff_new_from_fd(fd); r = slot[i] != NULL; }
    rd_fd = -1;
    close(fd);
    while (waitpid(-1, NULL, WNOHANG) > 0) {}
    return r;
}
/* after a refused re-initialisation the object must be left empty and reusable: put it in that state */
int c07_init_plain(int i) { return spif_mbuff_init(slot[i]); }
int c07_done(int i) { return spif_mbuff_done(slot[i]); }
int c07_del(int i) { int r = spif_mbuff_del(slot[i]); slot[i] = NULL; return r; }
int c07_dup(int i, int dst, int via_obj)
{
    slot[dst] = via_obj ? (spif_mbuff_t) SPIF_OBJ_DUP(SPIF_OBJ(slot[i])) : spif_mbuff_dup(slot[i]);
    return slot[dst] != NULL;
}
int c07_type_ok(int i)
{
    const void *t = (const void *) spif_mbuff_type(slot[i]);
    spif_class_t cls = SPIF_CLASS(SPIF_MBUFFCLASS_VAR(mbuff));
    return t && (t == (const void *) cls || t == (const void *) cls->classname);
}
int c07_append(int i, int o) { return spif_mbuff_append(slot[i], o < 0 ? NULL : slot[o]); }
int c07_prepend(int i, int o) { return spif_mbuff_prepend(slot[i], o < 0 ? NULL : slot[o]); }
int c07_append_ptr(int i, const char *t, long n, int isnull)
{
    spif_byteptr_t p = isnull ? NULL : exact(t, n);
    int r = spif_mbuff_append_from_ptr(slot[i], p, n);
    release(p, n);
    return r;
}
int c07_prepend_ptr(int i, const char *t, long n, int isnull)
{
    spif_byteptr_t p = isnull ? NULL : exact(t, n);
    int r = spif_mbuff_prepend_from_ptr(slot[i], p, n);
    release(p, n);
    return r;
}
int c07_splice(int i, long idx, long cnt, int o) { return spif_mbuff_splice(slot[i], idx, cnt, o < 0 ? NULL : slot[o]); }
int c07_splice_ptr(int i, long idx, long cnt, const char *t, long n, int isnull)
{
    spif_byteptr_t p = isnull ? NULL : exact(t, n);
    int r = spif_mbuff_splice_from_ptr(slot[i], idx, cnt, p, n);
    release(p, n);
    return r;
}
int c07_trim(int i) { return spif_mbuff_trim(slot[i]); }
int c07_reverse(int i) { return spif_mbuff_reverse(slot[i]); }
int c07_clear(int i, int c) { return spif_mbuff_clear(slot[i], (spif_uint8_t) c); }
int c07_sprintf(int i, int kind, const char *t, long n, long num, double d)
{
    char *p = (char *) malloc((size_t) n + 1);
    int r;
    memcpy(p, t, (size_t) n);
    p[n] = 0;
    switch (kind) {
    case 0: r = spif_mbuff_sprintf(slot[i], (spif_charptr_t) ""); break;
    case 1: r = spif_mbuff_sprintf(slot[i], (spif_charptr_t) "%s", p); break;
    case 2: r = spif_mbuff_sprintf(slot[i], (spif_charptr_t) "%d", (int) num); break;
    case 3: r = spif_mbuff_sprintf(slot[i], (spif_charptr_t) "%5.2f", d); break;
    case 4: r = spif_mbuff_sprintf(slot[i], (spif_charptr_t) p); break;
    default: r = spif_mbuff_sprintf(slot[i], (spif_charptr_t) "<%s|%ld>", p, num); break;
    }
    free(p);
    return r;
}
long c07_index(int i, int c) { return (long) spif_mbuff_index(slot[i], (spif_uint8_t) c); }
long c07_rindex(int i, int c) { return (long) spif_mbuff_rindex(slot[i], (spif_uint8_t) c); }
long c07_find(int i, int o) { return (long) spif_mbuff_find(slot[i], o < 0 ? NULL : slot[o]); }
long c07_find_ptr(int i, const char *t, long n, int isnull)
{
    spif_byteptr_t p = isnull ? NULL : exact(t, n);
    long r = (long) spif_mbuff_find_from_ptr(slot[i], p, n);
    release(p, n);
    return r;
}
int c07_subbuff(int i, long idx, long cnt, int dst) { slot[dst] = spif_mbuff_subbuff(slot[i], idx, cnt); return slot[dst] != NULL; }
char *c07_subbuff_to_ptr(int i, long idx, long cnt, long *alloc)
{
    char *r = (char *) spif_mbuff_subbuff_to_ptr(slot[i], idx, cnt);
    *alloc = r ? (long) __sanitizer_get_allocated_size(r) : 0;
    return r;
}
int c07_free(void *p) { FREE(p); return 1; }
/* kind 0 cmp, 1 ncmp, 2 comp (object protocol) */
int c07_cmp(int kind, int i, int o, long n)
{
    spif_mbuff_t ob = o < 0 ? NULL : slot[o];
    switch (kind) {
    case 0: return (int) spif_mbuff_cmp(slot[i], ob);
    case 1: return (int) spif_mbuff_ncmp(slot[i], ob, n);
    default: return (int) SPIF_OBJ_COMP(SPIF_OBJ(slot[i]), SPIF_OBJ(ob));
    }
}
int c07_cmp_ptr(int kind, int i, const char *t, long tn, int isnull, long n)
{
    spif_byteptr_t p = isnull ? NULL : exact(t, tn);
    int r = kind == 0 ? (int) spif_mbuff_cmp_with_ptr(slot[i], p, n) : (int) spif_mbuff_ncmp_with_ptr(slot[i], p, n);
    release(p, tn);
    return r;
}
long c07_get_len(int i) { return (long) spif_mbuff_get_len(slot[i]); }
long c07_get_size(int i) { return (long) spif_mbuff_get_size(slot[i]); }
long c07_show(int i)
{
    spif_str_t b = spif_mbuff_show(slot[i], (spif_byteptr_t) "x", (spif_str_t) NULL, 2);
    long r = -1;
    if (b) { r = (long) spif_str_get_len(b); spif_str_del(b); }
    return r;
}
void c07_state(int i, const char **b, long *len, long *size, long *alloc)
{
    *b = (const char *) slot[i]->buff; *len = (long) slot[i]->len; *size = (long) slot[i]->size;
    *alloc = *b ? (long) __sanitizer_get_allocated_size(*b) : 0;
}
