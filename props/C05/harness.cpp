// C05 - object protocol: dup is an independent equal copy, comp is a consistent order, type names the class.
#include "../../engine/rcglue.hpp"
#include "../../engine/latrack.hpp"

extern "C" {
int ob_init(void); int ob_exists(int); int ob_make(int, int, int, const char *, int); const char *ob_read(int); const char *ob_clsname(int);
int ob_dup(int, int); int ob_del(int); int ob_done(int); int ob_type_ok(int); int ob_show_ok(int); int ob_comp(int, int, int); int ob_mutate(int, int, const char *);
}
using namespace vt;
namespace {
const std::vector<std::string> kWords = {"abc", "abcd", "ab", "b", "x9", "ABC", "m", "zz", "a", "mid", "\x80", "\xe9z", "a\xff" "b", "\xff"};   // four with bytes >= 0x80: the order must not depend on the sign of char on one path only

std::string pack(const Op &op) { std::string p; for (auto &s : op.strs) { p += s; p.push_back('\0'); } return p; }
bool is_container(int cls) { return cls >= 7; }
bool is_value_ordered(int cls) { return cls <= 2; }   // str, ustr, mbuff: order = byte order of the text

struct Interp {
    Ctx &ctx;
    bool interesting = false;
    explicit Interp(Ctx &c) : ctx(c) {}

    void make(int slot, const Op &op) {
        int cls = (int)(((op.i(0) % 16) + 16) % 16), shape = (int)(((op.i(1) % 5) + 5) % 5);
        std::string p = pack(op);
        int r = LA(ob_make(slot, cls, shape, p.data(), (int)op.strs.size()));
        VT_CHECK(ctx, r == 1, "mismatch", "new:" << ob_clsname(cls) << "; constructor returned NULL");
        ctx.label(std::string("class:") + ob_clsname(cls) + (op.strs.empty() || shape == 0 ? ":empty" : ":non-empty"));
        if (cls >= 7 && cls <= 9 && shape == 2 && op.strs.size() >= 1) ctx.label("state:list-with-placeholders");
        if (cls == 4 && shape >= 2) ctx.label("state:tok-evaluated");
        if (cls == 4 && shape == 1) ctx.label("state:tok-not-evaluated");
        if (cls == 5 && shape == 4) ctx.label("state:url-after-unparse");
        if (cls <= 2 && shape == 4) ctx.label("state:after-done");
        if (cls <= 1 && shape == 2) ctx.label("state:capacity-above-length");
        if (!(op.strs.empty() || shape == 0)) interesting = true;
    }
    std::string read(int slot) { return std::string(LA(ob_read(slot))); }

    void run(const Case &c) {
        ht_install();
        ob_init();
        for (size_t at = 0; at < c.size(); at++) {
            ctx.step((int)at);
            ht_set_tag((int)at);
            const Op &op = c[at];
            if (op.name == "dupx") dup_experiment(op);
            else if (op.name == "comp") comp_experiment(op, at + 1 < c.size() ? &c[at + 1] : nullptr, at + 2 < c.size() ? &c[at + 2] : nullptr), at = c.size();
            else if (op.name == "obj") continue;
            else ctx.fail("harness", "unknown op " + op.name);
            for (int s = 0; s < 16; s++) if (ob_exists(s)) VT_CHECK(ctx, LA(ob_del(s)) == 1, "mismatch", "del; del returned FALSE");
        }
        if (!ht_overflowed() && ht_live_count() != 0) {
            char buf[256];
            ht_describe(buf, sizeof buf);
            ctx.fail("leak", "heap-not-balanced; " + std::to_string(ht_live_count()) + " block(s), " + std::to_string(ht_live_bytes()) + " bytes live after deleting both the object and its copy: " + buf);
        }
        if (interesting) ctx.nontrivial();
        ctx.ok();
    }

    // op: ints = cls, shape, variant(0..3), mutation kind(0..2), second mutation kind ; strs = recipe words ; last str = mutation word
    void dup_experiment(const Op &op) {
        int cls = (int)(((op.i(0) % 16) + 16) % 16);
        int variant = (int)(((op.i(2) % 4) + 4) % 4), kind = (int)(((op.i(3) % 3) + 3) % 3), kind2 = (int)(((op.i(4) % 3) + 3) % 3);
        Op recipe = op;
        std::string mw = recipe.strs.empty() ? "mw" : recipe.strs.back();
        if (!recipe.strs.empty()) recipe.strs.pop_back();
        make(0, recipe);
        std::string cn = ob_clsname(cls);
        VT_CHECK(ctx, LA(ob_type_ok(0)), "mismatch", "type:" << cn << "; type() does not identify the object's class");
        std::string orig = read(0);
        int r = LA(ob_dup(0, 1));
        VT_CHECK(ctx, r == 1, "mismatch", "dup:" << cn << "; dup " << (r == 0 ? "returned NULL" : r == -1 ? "returned the object itself" : "returned an object of another class") << " for " << orig);
        VT_CHECK(ctx, LA(ob_type_ok(1)), "mismatch", "type-of-copy:" << cn << "; type() of the copy does not identify the class");
        std::string copy = read(1);
        VT_CHECK(ctx, copy == orig, "mismatch", "dup-value:" << cn << "; copy reads " << copy << " but the original reads " << orig);
        VT_CHECK(ctx, read(0) == orig, "mismatch", "dup-changed-original:" << cn << "; original reads differently after dup");
        if (!is_container(cls)) {
            int c1 = LA(ob_comp(cls, 0, 1)), c2 = LA(ob_comp(cls, 1, 0));
            VT_CHECK(ctx, c1 == 0 && c2 == 0, "mismatch", "comp-of-copy:" << cn << "; comp(original, copy)=" << c1 << ", comp(copy, original)=" << c2 << " for " << orig);
        }
        // which side is changed / deleted, which one must survive untouched
        int victim = (variant & 1) ? 0 : 1, survivor = 1 - victim;
        bool del_only = (variant & 2) != 0;
        if (!del_only) {
            if (LA(ob_mutate(victim, kind, mw.c_str()))) ctx.label("mutate-one-side:kind" + std::to_string(kind));
            VT_CHECK(ctx, read(survivor) == orig, "mismatch", "independence:" << cn << "; after mutating the " << (victim ? "copy" : "original") << " (kind " << kind << ") the other reads " << read(survivor) << " instead of " << orig);
            LA(ob_mutate(victim, kind2, mw.c_str()));
            VT_CHECK(ctx, read(survivor) == orig, "mismatch", "independence:" << cn << "; after a second mutation of the " << (victim ? "copy" : "original") << " the other reads " << read(survivor) << " instead of " << orig);
            if (kind == 2 || kind2 == 2) { LA(ob_done(victim)); VT_CHECK(ctx, LA(ob_type_ok(victim)), "mismatch", "type-after-done:" << cn << "; an emptied object no longer names its class"); VT_CHECK(ctx, read(survivor) == orig, "mismatch", "independence-after-done:" << cn << "; emptying one side changed the other"); ctx.label("empty-one-side"); }
        }
        VT_CHECK(ctx, LA(ob_del(victim)) == 1, "mismatch", "del; del returned FALSE");
        ctx.label(victim ? "delete-copy-then-read-original" : "delete-original-then-read-copy");
        VT_CHECK(ctx, read(survivor) == orig, "mismatch", "independence-after-delete:" << cn << "; after deleting the " << (victim ? "copy" : "original") << " the other reads " << read(survivor) << " instead of " << orig);
        // the survivor must still be a working object
        LA(ob_mutate(survivor, 0, mw.c_str()));
        LA(ob_read(survivor));
        interesting = true;
    }

    // "comp" op followed by up to two more "obj" ops: three objects of the same class
    void comp_experiment(const Op &a, const Op *b, const Op *c) {
        int cls = (int)(((a.i(0) % 16) + 16) % 16);
        std::string cn = ob_clsname(cls);
        Op ra = a, rb = b ? *b : a, rc_ = c ? *c : a;
        rb.ints[0] = cls; rc_.ints[0] = cls;
        make(0, ra); make(1, rb); make(2, rc_);
        std::string t[3] = {read(0), read(1), read(2)};
        int m[3][3];
        for (int i = 0; i < 3; i++) for (int j = 0; j < 3; j++) {
            m[i][j] = LA(ob_comp(cls, i, j));
            VT_CHECK(ctx, m[i][j] >= -1 && m[i][j] <= 1, "mismatch", "comp-range:" << cn << "; comp returned " << m[i][j]);
        }
        for (int i = 0; i < 3; i++) {
            VT_CHECK(ctx, m[i][i] == 0, "mismatch", "comp-reflexive:" << cn << "; comp(x,x)=" << m[i][i] << " for " << t[i]);
            int n1 = LA(ob_comp(cls, -1, i)), n2 = LA(ob_comp(cls, i, -1));
            VT_CHECK(ctx, n1 == -1 && n2 == 1, "mismatch", "comp-null-order:" << cn << "; comp(NULL,x)=" << n1 << " comp(x,NULL)=" << n2 << " for " << t[i]);
            for (int j = 0; j < 3; j++) VT_CHECK(ctx, m[i][j] == -m[j][i], "mismatch", "comp-antisymmetric:" << cn << "; comp(a,b)=" << m[i][j] << " comp(b,a)=" << m[j][i] << " a=" << t[i] << " b=" << t[j]);
        }
        VT_CHECK(ctx, LA(ob_comp(cls, -1, -1)) == 0, "mismatch", "comp-null-null:" << cn << "; comp(NULL,NULL) != EQUAL");
        for (int i = 0; i < 3; i++) for (int j = 0; j < 3; j++) for (int k = 0; k < 3; k++)
            if (m[i][j] <= 0 && m[j][k] <= 0) VT_CHECK(ctx, m[i][k] <= 0, "mismatch", "comp-transitive:" << cn << "; a<=b and b<=c but comp(a,c)=" << m[i][k] << " a=" << t[i] << " b=" << t[j] << " c=" << t[k]);
        if (is_value_ordered(cls)) {
            // text order: a proper prefix sorts first (so equal-prefix buffers of different length are not equal)
            auto text = [&](const Op &r) { int sh = (int)(((r.i(1) % 5) + 5) % 5); if (r.strs.empty() || sh == 0 || sh == 4) return std::string(); std::string w = r.s(0); if (sh == 3) w += (cls == 2 ? std::string(1, '\0') : "q"); return w; };
            std::string x[3] = {text(ra), text(rb), text(rc_)};
            for (int i = 0; i < 3; i++) for (int j = 0; j < 3; j++) {
                int want = x[i] < x[j] ? -1 : (x[i] > x[j] ? 1 : 0);
                VT_CHECK(ctx, m[i][j] == want, "mismatch", "comp-order:" << cn << "; comp(" << t[i] << "," << t[j] << ")=" << m[i][j] << " expected " << want);
                if (x[i] != x[j] && (x[i].compare(0, x[j].size(), x[j]) == 0 || x[j].compare(0, x[i].size(), x[i]) == 0)) ctx.label(std::string("comp:prefix-pair:") + cn);
            }
        }
        if (t[0] != t[1] || t[1] != t[2]) interesting = true;
        ctx.label(std::string("comp:") + cn);
        if (is_container(cls)) ctx.label("comp:pair-of-containers");
    }
};

rc::Gen<std::vector<std::string>> gen_words(int max) {
    return rc::gen::exec([=]() {
        std::vector<std::string> v;
        long n = *range(0, max);
        for (long i = 0; i < n; i++) v.push_back(*rc::gen::elementOf(kWords));
        return v;
    });
}
rc::Gen<Case> gen_case() {
    return rc::gen::exec([]() {
        Case c;
        long cls = *range(0, 15), shape = *range(0, 4);
        if (*range(0, 9) < 6) {
            Op o = mk("dupx", {cls, shape, *range(0, 3), *range(0, 2), *range(0, 2)});
            o.strs = *gen_words(5);
            o.strs.push_back(*rc::gen::elementOf(kWords));   // mutation word (last)
            c.push_back(o);
        } else {
            Op a = mk("comp", {cls, shape});
            a.strs = *gen_words(4);
            c.push_back(a);
            for (int k = 0; k < 2; k++) {
                Op b = mk("obj", {cls, *range(0, 3) == 0 ? shape : *range(0, 4)});
                int rel = (int)*range(0, 3);
                if (rel == 0) b.strs = a.strs;                                  // equal value
                else if (rel == 1 && !a.strs.empty()) { b.strs = a.strs; b.strs[0] = b.strs[0] + "d"; }   // extension of the first word
                else b.strs = *gen_words(4);
                c.push_back(b);
            }
        }
        return c;
    });
}
struct C05 : Harness {
    const char *property() const override { return "C05"; }
    const char *rule() const override { return ""; }
    void run(const Case &c, Ctx &ctx) override { Interp in(ctx); in.run(c); }
    bool search(const std::string &, const std::function<bool(const Case &)> &try_case) override { return rc_search("C05 dup independence and comp laws", gen_case(), try_case); }
};
}  // namespace
vt::Harness *vt::make_harness() { return new C05(); }
