/* C05 shim: object protocol (dup / comp / type) over every value class, through engine/objs.inc */
#include "config.h"
#include <libast.h>
#include "objs.inc"
