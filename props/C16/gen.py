#!/usr/bin/env python3
"""C16 generator.  From the committed contract (props/C16/guards.tsv) united with the guards found in the
current tree, emit
   cells.inc : one C function per library function: builds valid arguments, replaces the selected ones by
               NULL, calls (directly, or through the class-table slot for static methods), reports the result
   cells.tsv : the cell table the harness enumerates: func index, func, file, mask, guarded parameter(s),
               guard macro, expected failure value, origin (contract / tree)
A function that no longer exists in the tree is skipped (API change, not a property violation); a function
that still exists keeps its committed contract even if its guard has disappeared from the source."""
import os, re, sys
HERE = os.path.dirname(os.path.abspath(__file__))
sys.path.insert(0, HERE)
import extract

# parameter type -> (C type used in the call prototype, maker expression, snapshot kind)
OBJ = "obj"
TYPES = {
    "spif_obj_t": ("spif_obj_t", "mk_obj(shape, {i})", OBJ),
    "spif_str_t": ("spif_str_t", "mk_str(shape, {i})", OBJ),
    "spif_ustr_t": ("spif_ustr_t", "mk_ustr(shape, {i})", OBJ),
    "spif_mbuff_t": ("spif_mbuff_t", "mk_mbuff(shape, {i})", OBJ),
    "spif_objpair_t": ("spif_objpair_t", "mk_objpair(shape, {i})", OBJ),
    "spif_tok_t": ("spif_tok_t", "mk_tok(shape, {i})", OBJ),
    "spif_url_t": ("spif_url_t", "mk_url(shape, {i})", OBJ),
    "spif_regexp_t": ("spif_regexp_t", "mk_regexp(shape, {i})", OBJ),
    "spif_socket_t": ("spif_socket_t", "mk_socket(shape, {i})", OBJ),
    "spif_array_t": ("spif_array_t", "mk_container(0, shape, {i})", OBJ),
    "spif_linked_list_t": ("spif_linked_list_t", "mk_container(1, shape, {i})", OBJ),
    "spif_dlinked_list_t": ("spif_dlinked_list_t", "mk_container(2, shape, {i})", OBJ),
    "spif_list_t": ("spif_list_t", "mk_container(1, shape, {i})", OBJ),
    "spif_array_iterator_t": ("void *", "mk_iter(0, shape, {i})", None),
    "spif_linked_list_iterator_t": ("void *", "mk_iter(1, shape, {i})", None),
    "spif_dlinked_list_iterator_t": ("void *", "mk_iter(2, shape, {i})", None),
    "spif_class_t": ("spif_class_t", "SPIF_CLASS_VAR(str)", None),
    "spif_charptr_t": ("spif_charptr_t", "mk_cstr(shape, {i})", "cstr"),
    "const spif_charptr_t": ("spif_charptr_t", "mk_cstr(shape, {i})", "cstr"),
    "register const spif_charptr_t": ("spif_charptr_t", "mk_cstr(shape, {i})", "cstr"),
    "const char *": ("const char *", "mk_cstr(shape, {i})", "cstr"),
    "char *": ("char *", "mk_cstr(shape, {i})", "cstr"),
    "register char *": ("char *", "mk_cstr(shape, {i})", "cstr"),
    "spif_byteptr_t": ("spif_byteptr_t", "mk_cstr(shape, {i})", "cstr"),
    "const void *": ("const void *", "mk_cstr(shape, {i})", "cstr"),
    "void *": ("void *", "mk_cstr(shape, {i})", "cstr"),
    "FILE *": ("FILE *", "mk_file()", None),
    "char **": ("char **", "mk_charpp()", None),
    "spifmem_memrec_t *": ("spifmem_memrec_t *", "mk_memrec()", None),
    "spifconf_func_ptr_t": ("spifconf_func_ptr_t", "c16_conf_func", None),
    "ctx_handler_t": ("ctx_handler_t", "c16_ctx_handler", None),
}
INTS = {"spif_memidx_t", "spif_ustridx_t", "spif_stridx_t", "spif_listidx_t", "int", "unsigned long", "spif_int32_t", "size_t", "spif_uint8_t", "long",
        "unsigned char", "spif_char_t", "spif_uint32_t", "unsigned int", "spif_bool_t", "spif_uchar_t", "spif_uint16_t", "spif_sockport_t"}
INT_RET = {"spif_bool_t", "spif_cmp_t", "int", "spif_listidx_t", "spif_ustridx_t", "spif_stridx_t", "spif_memidx_t", "unsigned char", "size_t", "long", "unsigned long",
           "spif_uint32_t", "spif_int32_t", "spif_sockport_t"}
# entry points left out, with the reason (they are reported in the evidence as excluded)
SKIP = {
    "spifmem_free": "frees its argument by design", "spifmem_realloc": "C15's subject", "spifmem_strdup": "C15's subject",
    "libast_fatal_error": "always ends the process",
}


def load_contract():
    p = os.path.join(HERE, "guards.tsv")
    rows = []
    if os.path.exists(p):
        for line in open(p):
            line = line.rstrip("\n")
            if line and not line.startswith("#"):
                rows.append(tuple(line.split("\t")))
    return rows


def all_function_names(src_dir):
    names = set()
    for fn in extract.FILES:
        path = os.path.join(src_dir, fn)
        if os.path.exists(path):
            for m in extract.FUNC_RE.finditer(open(path, encoding="latin-1").read()):
                names.add(m.group(2))
    return names


def built_symbols():
    """Functions that are really compiled into the library (the sources carry replacements for libc functions
    inside #ifndef HAVE_... blocks which this platform does not build)."""
    sys.path.insert(0, os.path.dirname(os.path.dirname(HERE)))
    import build, subprocess
    vdir = build.ensure("asan")
    out = subprocess.run(["nm", os.path.join(vdir, "libast.a")], capture_output=True, text=True).stdout
    return set(l.split()[-1] for l in out.splitlines() if len(l.split()) == 3 and l.split()[1] in "Tt")


def generate(repo, out_dir):
    src = os.path.join(repo, "src")
    built = built_symbols()
    tree = {r[0]: r for r in extract.extract(src)}
    contract = {r[0]: r for r in load_contract()}
    defined = all_function_names(src)
    funcs, notes = [], []
    for name in sorted(set(tree) | set(contract)):
        origin = "contract" if name in contract else "tree"
        row = contract.get(name) or tree[name]
        if name not in defined:
            notes.append("gone\t%s" % name); continue
        if name not in built:
            notes.append("not-built-on-this-platform\t%s" % name); continue
        # the class-table slot and the prototype always come from the current tree when it still has them
        cur = tree.get(name)
        if cur:
            row = (row[0], cur[1], cur[2], cur[3], cur[4], row[5], cur[6])
        if row[2] == "static" and row[6] == "-":
            notes.append("unreachable\t%s" % name); continue
        if name in SKIP:
            notes.append("excluded\t%s\t%s" % (name, SKIP[name])); continue
        funcs.append(row + (origin,))
    c, t = [], []
    for fi, (name, fn, static, rtype, params, guards, slot, origin) in enumerate(funcs):
        plist = [tuple(p.rsplit(" ", 1)) for p in params.split(";")] if params else []
        plist = [(a.strip(), b) for a, b in plist]
        pnames = [p[1] for p in plist]
        glist = [tuple(g.split(":", 2)) for g in guards.split(";") if g]
        glist = [g for g in glist if g[0] in pnames]
        # a failure "value" that is a call on the other arguments (init_from_ptr(self, NULL) == init(self)) is a documented
        # fallback, not a failure value: out of the property's scope
        for g in list(glist):
            if g[1] != "SPIF_OBJ_COMP_CHECK_NULL" and any(re.search(r'\b%s\b' % re.escape(pn), g[2]) for pn in pnames if pn):
                notes.append("fallback-not-failure\t%s\t%s\t%s" % (name, g[0], g[2])); glist.remove(g)
        if not glist:
            notes.append("no-parameter-guard\t%s" % name); continue
        decl, args, protos, snaps, ok = [], [], [], [], True
        for i, (ty, pn) in enumerate(plist):
            if ty == "...":
                continue
            if ty in INTS:
                decl.append("    %s a%d = (%s) c16_int(shape);" % (ty, i, ty)); protos.append(ty); args.append("a%d" % i); continue
            if ty not in TYPES:
                ok = False; notes.append("unknown-type\t%s\t%s" % (name, ty)); break
            cty, maker, snap = TYPES[ty]
            decl.append("    %s a%d = (%s) %s;" % (cty, i, cty, maker.format(i=i)))
            protos.append(cty)
            args.append("(mask & %d) ? (%s) NULL : a%d" % (1 << i, cty, i))
            if snap:
                snaps.append((i, snap))
        if not ok:
            continue
        variadic = any(p[0] == "..." for p in plist)
        rt = rtype.strip()
        if rt.endswith("_iterator_t") and rt in TYPES:
            rt = "void *"          # private to its .c file
        proto = "%s (*)(%s%s)" % (rt, ", ".join(protos) if protos else "void", ", ..." if variadic else "")
        if static == "static":
            var, idx = slot.rsplit(":", 1)
            callee = "((%s) c16_slot((void *) %s, %s))" % (proto, var, idx)
        else:
            callee = name
        c.append("/* %s (%s) guards: %s */" % (name, fn, guards))
        c.append("static void call_%d(int mask, int shape, struct c16_out *o)\n{" % fi)
        c += decl
        if rt != "void":
            c.append("    %s ret;\n    %s want;" % (rt, rt))
        for i, kind in snaps:
            c.append("    snap_%s(&o->before[%d], a%d);" % (kind, i, i))
        # expected value per mask
        cells = []
        cmp_params = [g[0] for g in glist if g[1] == "SPIF_OBJ_COMP_CHECK_NULL"]
        if rt != "void":
            c.append("    switch (mask) {")
            for g in glist:
                pi = pnames.index(g[0]); m = 1 << pi
                if g[1] == "SPIF_OBJ_COMP_CHECK_NULL":
                    val = "SPIF_CMP_LESS" if pi == pnames.index(cmp_params[0]) else "SPIF_CMP_GREATER"
                else:
                    val = g[2]
                if any(cc[0] == m for cc in cells):
                    continue
                if "_iterator_t)" in val:
                    val = "NULL"
                c.append("    case %d: want = (%s) (%s); break;" % (m, rt, val))
                cells.append((m, g[0], g[1], val))
            if len(cmp_params) == 2:
                m = (1 << pnames.index(cmp_params[0])) | (1 << pnames.index(cmp_params[1]))
                c.append("    case %d: want = (%s) (SPIF_CMP_EQUAL); break;" % (m, rt))
                cells.append((m, "+".join(cmp_params), "SPIF_OBJ_COMP_CHECK_NULL", "SPIF_CMP_EQUAL"))
            c.append("    default: o->bad_cell = 1; return;\n    }")
        else:
            for g in glist:
                pi = pnames.index(g[0]); m = 1 << pi
                if not any(cc[0] == m for cc in cells):
                    cells.append((m, g[0], g[1], "(returns nothing)"))
        c.append("    c16_begin();")
        call = "%s(%s)" % (callee, ", ".join(args))
        c.append("    %s%s;" % ("ret = " if rt != "void" else "", call))
        c.append("    c16_end(o);")
        if rt == "void":
            c.append("    o->ret_ok = 1; snprintf(o->ret_text, sizeof o->ret_text, \"(void)\");")
        elif rt == "double":
            c.append("    o->ret_ok = (want != want) ? (ret != ret) : (ret == want); snprintf(o->ret_text, sizeof o->ret_text, \"%g (wanted %g)\", ret, want);")
        elif rt == "spif_classname_t":
            c.append("    o->ret_ok = (ret == want) || (ret && want && !strcmp((const char *) ret, (const char *) want)); snprintf(o->ret_text, sizeof o->ret_text, \"'%.60s' (wanted '%.60s')\", ret ? (const char *) ret : \"(null)\", want ? (const char *) want : \"(null)\");")
        elif rt in INT_RET:
            c.append("    o->ret_ok = (ret == want); snprintf(o->ret_text, sizeof o->ret_text, \"%lld (wanted %lld)\", (long long) ret, (long long) want);")
        else:
            c.append("    o->ret_ok = (ret == want); snprintf(o->ret_text, sizeof o->ret_text, \"%s (wanted %s)\", ret ? \"non-NULL\" : \"NULL\", want ? \"non-NULL\" : \"NULL\");")
        for i, kind in snaps:
            c.append("    if (!(mask & %d)) { snap_%s(&o->after[%d], a%d); } else o->after[%d] = o->before[%d];" % (1 << i, kind, i, i, i, i))
        c.append("}\n")
        for (m, pn, macro, val) in cells:
            t.append("\t".join([str(fi), name, fn, str(m), pn, macro, val, origin, static]))
    externs = sorted(set(re.findall(r'SPIF_ITERATORCLASS_VAR\(\w+\)', "\n".join(c))))
    c = ["extern spif_iteratorclass_t %s;" % e for e in externs] + [""] + c
    c.append("static void (*const c16_calls[])(int, int, struct c16_out *) = {")
    known = set(int(x.split("\t")[0]) for x in t)
    for fi in range(len(funcs)):
        c.append("    %s," % ("call_%d" % fi if fi in known else "NULL"))
    c.append("};\n#define C16_NCALLS %d" % len(funcs))
    os.makedirs(out_dir, exist_ok=True)
    open(os.path.join(out_dir, "cells.inc"), "w").write("\n".join(c) + "\n")
    open(os.path.join(out_dir, "cells.tsv"), "w").write("\n".join(t) + "\n")
    open(os.path.join(out_dir, "notes.tsv"), "w").write("\n".join(notes) + "\n")
    # the current tree's guards that differ from the contract (information for the evidence, never an alarm by itself)
    return {"cells": os.path.join(out_dir, "cells.tsv"), "notes": os.path.join(out_dir, "notes.tsv")}


if __name__ == "__main__":
    r = generate(sys.argv[1] if len(sys.argv) > 1 else "/repo", sys.argv[2] if len(sys.argv) > 2 else "/tmp/c16gen")
    print(r)
