/* C16 shim: run-time support for the generated calls (cells.inc, produced by gen.py from the guard
 * contract): constructors for valid arguments of every parameter type, read-back snapshots, allocation
 * accounting around the call, and class-table slot lookup for static methods. */
#include "config.h"
#include <libast.h>
#include <math.h>

extern void ht_install(void); extern void ht_begin(void); extern void ht_end(void);
extern unsigned ht_live_count(void); extern unsigned long ht_total(void);

#define NSNAP 8
struct c16_snap { int used; char text[2048]; };
struct c16_out {
    int ret_ok, bad_cell;
    char ret_text[160];
    unsigned long allocs;       /* allocations made during the call */
    unsigned live;              /* of those, still live after it */
    struct c16_snap before[NSNAP], after[NSNAP];
};

/* ---- valid arguments.  shape bit 0: empty / filled companions, bits 1-2: which integer (0, 1, 7, -3), bit 1 also: second flavour */
static long c16_int(int shape) { static const long v[] = { 0, 1, 7, -3 }; return v[(shape >> 1) & 3]; }
static const char *word(int shape, int i) { static const char *w[] = { "alpha", "", "b", "gamma-delta" }; return w[(shape + i) & 3]; }
static void *mk_str(int shape, int i) { return spif_str_new_from_ptr((spif_charptr_t) word(shape, i)); }
static void *mk_ustr(int shape, int i) { return spif_ustr_new_from_ptr((spif_charptr_t) word(shape, i)); }
static void *mk_mbuff(int shape, int i) { const char *w = word(shape, i); return *w ? spif_mbuff_new_from_ptr((spif_byteptr_t) w, (spif_memidx_t) strlen(w)) : spif_mbuff_new(); }
static void *mk_obj(int shape, int i) { return (shape & 2) ? mk_mbuff(shape, i) : mk_str(shape, i); }
static void *mk_objpair(int shape, int i) { return spif_objpair_new_from_both(SPIF_OBJ(mk_str(shape, i)), SPIF_OBJ(mk_str(shape, i + 1))); }
/* (always evaluated: the read-back uses show(), and show() of a tokenizer that was never evaluated dereferences its missing token list) */
static void *mk_tok(int shape, int i) { spif_tok_t t = spif_tok_new_from_ptr((spif_charptr_t) ((shape & 1) ? "one two  'three four'" : "solo")); spif_tok_eval(t); return t; }
static void *mk_url(int shape, int i) { return spif_url_new_from_ptr((spif_charptr_t) ((shape & 1) ? "http://user:pw@host:81/p?q" : "/just/a/path")); }
static void *mk_regexp(int shape, int i) { return spif_regexp_new_from_ptr((spif_charptr_t) ((shape & 1) ? "a.c" : "^x+$")); }
static void *mk_socket(int shape, int i) { return spif_socket_new(); }
static void *mk_container(int impl, int shape, int i)
{
    spif_list_t l;
    switch (impl) {
    case 0: l = SPIF_LIST_NEW(array); break;
    case 1: l = SPIF_LIST_NEW(linked_list); break;
    default: l = SPIF_LIST_NEW(dlinked_list); break;
    }
    if (shape & 1) { SPIF_LIST_APPEND(l, SPIF_OBJ(mk_str(0, 0))); SPIF_LIST_APPEND(l, SPIF_OBJ(mk_str(0, 2))); }
    return l;
}
static void *mk_iter(int impl, int shape, int i) { spif_list_t l = (spif_list_t) mk_container(impl, 1, i); return SPIF_LIST_ITERATOR(l); }
static void *mk_cstr(int shape, int i) { return strdup(*word(shape, i) ? word(shape, i) : "z"); }
static void *mk_file(void) { return fopen("/dev/null", "r"); }
static void *mk_charpp(void) { static char *slot[4]; return slot; }
static void *mk_memrec(void) { static spifmem_memrec_t rec; return &rec; }
static void *c16_conf_func(spif_charptr_t s) { return NULL; }
static void *c16_ctx_handler(spif_charptr_t s, void *p) { return NULL; }

/* ---- read-back */
static void snap_obj(struct c16_snap *s, void *o)
{
    spif_str_t txt;
    s->used = 1;
    s->text[0] = 0;
    if (!o) return;
    txt = SPIF_OBJ_SHOW(SPIF_OBJ(o), (spif_str_t) NULL, 0);
    if (txt) { snprintf(s->text, sizeof s->text, "%s", (char *) SPIF_STR_STR(txt)); spif_str_del(txt); }
}
static void snap_cstr(struct c16_snap *s, const void *p) { s->used = 1; snprintf(s->text, sizeof s->text, "%s", p ? (const char *) p : ""); }

/* ---- accounting.  A refused call must not leave its mark on the library's public global state either: the option
 * parser's settings (flags, option table, bad-option counters), the runtime debug level, the program name. */
static unsigned long tot0;
struct c16_globals { spifopt_settings_t opts; unsigned int level; const void *progname; };
extern spif_charptr_t libast_program_name;   /* debug.c; declared in libast_internal.h */
static struct c16_globals g0;
static void c16_globals_get(struct c16_globals *g) { g->opts = spifopt_settings; g->level = libast_debug_level; g->progname = libast_program_name; }
static void c16_begin(void) { c16_globals_get(&g0); tot0 = ht_total(); ht_begin(); }
static int c16_globals_changed;
static void c16_end(struct c16_out *o)
{
    struct c16_globals g1;
    ht_end(); o->allocs = ht_total() - tot0; o->live = ht_live_count();
    c16_globals_get(&g1);
    c16_globals_changed = (g1.opts.flags != g0.opts.flags || g1.opts.num_opts != g0.opts.num_opts || g1.opts.opt_list != g0.opts.opt_list || g1.opts.bad_opts != g0.opts.bad_opts
                           || g1.opts.allow_bad != g0.opts.allow_bad || g1.level != g0.level || g1.progname != g0.progname);
}
int c16_globals_touched(void) { return c16_globals_changed; }
static void *c16_slot(void *cls, int idx) { return ((void **) cls)[idx]; }

#include "cells.inc"

static struct c16_out out;
int c16_init(long level, int silent)
{
    ht_install(); libast_debug_level = (unsigned int) level; libast_set_silent(silent ? TRUE : FALSE);
    /* global settings in a non-default state, so that a refused call that resets them is seen */
    SPIFOPT_FLAGS_SET(SPIFOPT_SETTING_PREPARSE | SPIFOPT_SETTING_REMOVE_ARGS);
    SPIFOPT_ALLOWBAD_SET(3);
    return 1;
}
/* -> 0 done, -1 no such call / cell */
int c16_call(int fi, int mask, int shape)
{
    memset(&out, 0, sizeof out);
    if (fi < 0 || fi >= C16_NCALLS || !c16_calls[fi]) return -1;
    c16_calls[fi](mask, shape, &out);
    return out.bad_cell ? -1 : 0;
}
int c16_ret_ok(void) { return out.ret_ok; }
const char *c16_ret_text(void) { return out.ret_text; }
long c16_allocs(void) { return (long) out.allocs; }
long c16_live(void) { return (long) out.live; }
/* index of the first argument whose read-back changed, -1 none */
int c16_changed(void) { int i; for (i = 0; i < NSNAP; i++) if (out.before[i].used && strcmp(out.before[i].text, out.after[i].text)) return i; return -1; }
const char *c16_before(int i) { return out.before[i].text; }
const char *c16_after(int i) { return out.after[i].text; }
