#!/usr/bin/env python3
"""Extract, from the library sources, every function with NULL guards at its entry:
   name, file, static?, return type, parameters, and for each guarded parameter the guard macro and the
   failure value.  Also the class-table slot through which a static method is reachable.
   Output: TSV lines  func \t file \t static \t ret \t params(type name;...) \t guards(param:macro:value;...) \t table(classvar:index or -)
"""
import os, re, sys

FILES = ["obj.c", "str.c", "ustr.c", "mbuff.c", "objpair.c", "tok.c", "url.c", "regexp.c", "socket.c", "array.c",
         "linked_list.c", "dlinked_list.c", "strings.c", "conf.c", "msgs.c", "mem.c", "file.c", "options.c"]

FUNC_RE = re.compile(r'^((?:static\s+)?[A-Za-z_][A-Za-z0-9_ \*]*?)\n([A-Za-z_][A-Za-z0-9_]*)\(([^)]*)\)\n\{\n', re.M)
GUARD_RE = re.compile(r'^\s*(ASSERT_RVAL|REQUIRE_RVAL|ASSERT|REQUIRE|SPIF_OBJ_COMP_CHECK_NULL)\s*\((.*)\);\s*$')
NULLCOND = [re.compile(r'^!\s*SPIF_[A-Z_]+_ISNULL\(\s*([a-z_][a-z0-9_]*)\s*\)$'),
            re.compile(r'^([a-z_][a-z0-9_]*)\s*!=\s*(?:\([^)]*\)\s*)?NULL$'),
            re.compile(r'^\(?([a-z_][a-z0-9_]*)\)?\s*!=\s*\(?\s*\(?[a-z_ \*]*\)?\s*NULL\)?$'),
            re.compile(r'^!\s*SPIF_PTR_ISNULL\(\s*([a-z_][a-z0-9_]*)\s*\)$')]


def split_top(s):
    out, depth, cur = [], 0, ""
    for ch in s:
        if ch == "," and depth == 0:
            out.append(cur.strip()); cur = ""
        else:
            depth += ch in "([{"; depth -= ch in ")]}"
            cur += ch
    if cur.strip():
        out.append(cur.strip())
    return out


def parse_params(p):
    p = p.strip()
    if p in ("", "void"):
        return []
    res = []
    for a in split_top(p):
        if a == "...":
            res.append(("...", "")); continue
        m = re.match(r'^(.*?)([A-Za-z_][A-Za-z0-9_]*)(\[\])?$', a.strip())
        if not m:
            res.append((a.strip(), "?")); continue
        res.append((m.group(1).strip() + ("*" if m.group(3) else ""), m.group(2)))
    return res


def extract(src_dir):
    rows = []
    for fn in FILES:
        path = os.path.join(src_dir, fn)
        if not os.path.exists(path):
            continue
        text = open(path, encoding="latin-1").read()
        # class tables: initializer lists of function names
        tables = {}
        for m in re.finditer(r'^(?:static\s+)?(?:SPIF_CONST_TYPE\((\w+)\)|spif_const_(\w+)_t)\s+(\w+)\s*=\s*\{(.*?)\n\};', text, re.M | re.S):
            body = m.group(4)
            names = re.findall(r'\(spif_func_t\)\s*([A-Za-z_][A-Za-z0-9_]*)', body)
            tables[m.group(3)] = names
        # exported class variables pointing at those tables
        classvars = {}
        for m in re.finditer(r'^(\w+)\s+(SPIF_\w*CLASS_VAR\(\w+\))\s*=\s*(?:\([^)]*\)\s*)?&\s*(\w+)\s*;', text, re.M):
            classvars[m.group(3)] = m.group(2)
        for m in FUNC_RE.finditer(text):
            rtype, name, params = m.group(1).strip(), m.group(2), m.group(3)
            static = rtype.startswith("static")
            rtype = re.sub(r'^static\s+', '', rtype)
            body = text[m.end():]
            guards = []
            plist = parse_params(" ".join(params.split()))
            pnames = [p[1] for p in plist]
            for line in body.split("\n"):
                s = line.strip()
                if not s or s.startswith("/*") or s.startswith("*") or s.startswith("//"):
                    continue
                g = GUARD_RE.match(line)
                if g:
                    macro, args = g.group(1), split_top(g.group(2))
                    if macro == "SPIF_OBJ_COMP_CHECK_NULL":
                        guards.append((args[0], macro, "cmp")); guards.append((args[1], macro, "cmp"))
                        continue
                    cond = args[0]
                    val = args[1] if len(args) > 1 else ""
                    hit = None
                    for r in NULLCOND:
                        mm = r.match(cond)
                        if mm and mm.group(1) in pnames:
                            hit = mm.group(1); break
                    if hit:
                        guards.append((hit, macro, val))
                    continue            # another entry check (range etc.): keep scanning the guard block
                # declarations and USE_VAR lines may precede / interleave the guards
                if re.match(r'^(register\s+|const\s+|unsigned\s+|struct\s+)?[A-Za-z_][A-Za-z0-9_]*\s*\**\s*[A-Za-z_][A-Za-z0-9_\[\]]*(\s*=\s*[^;]*)?(\s*,\s*\**\s*[A-Za-z_][A-Za-z0-9_\[\]]*(\s*=\s*[^;]*)?)*;$', s) or s.startswith("USE_VAR("):
                    continue
                break
            if not guards:
                continue
            slot = "-"
            for tname, names in tables.items():
                if name in names and tname in classvars:
                    slot = "%s:%d" % (classvars[tname], names.index(name) + 1)
                    break
            rows.append((name, fn, "static" if static else "extern", rtype, ";".join("%s %s" % p for p in plist),
                         ";".join("%s:%s:%s" % g for g in guards), slot))
    return rows


if __name__ == "__main__":
    rows = extract(sys.argv[1] if len(sys.argv) > 1 else "/repo/src")
    for r in rows:
        print("\t".join(r))
