// C03 - every map implementation is the same finite dictionary.
#include "../../engine/rcglue.hpp"
#include "tracker.hpp"
#include "../../engine/latrack.hpp"
#include <map>

extern "C" {
int c03_init(void); int c03_type_ok(int); int c03_set(int, const char *, const char *, int); const char *c03_get(int, const char *);
const char *c03_remove(int, const char *); int c03_has_key(int, const char *); int c03_has_value(int, const char *); long c03_count(int, int);
const char *c03_get_list(int, int, int, int, int); const char *c03_seq_iter(int, int, int); int c03_dup(int); int c03_swap(int);
int c03_done(int); int c03_teardown(void); const char *c03_invariant(int, int);
}
using namespace vt;
namespace {
const char *kCls[3] = {"array", "linked_list", "dlinked_list"};
const std::vector<std::string> kKeys = {"b", "d", "f", "h", "k", "m", "dd", "B"};
const std::vector<std::string> kVals = {"v0", "v1", "v2", "", "v4", "longer value 5"};
using Dict = std::map<std::string, std::string>;

struct Interp {
    Ctx &ctx;
    Dict cur, other;
    bool has_other = false, interesting = false, armed = false;
    bool after_remove_largest = false, after_remove_smallest = false;
    int fresh = 0;
    explicit Interp(Ctx &c) : ctx(c) {}

    static std::string pairs_text(const Dict &d) { std::string t; for (auto &e : d) { if (!t.empty()) t += ','; t += e.first + "=" + e.second; } return t; }
    static std::string keys_text(const Dict &d) { std::string t; bool f = true; for (auto &e : d) { if (!f) t += ','; f = false; t += e.first; } return t; }
    static std::string vals_text(const Dict &d) { std::string t; bool f = true; for (auto &e : d) { if (!f) t += ','; f = false; t += e.second; } return t; }

    // symbolic key choice
    std::string key(const Op &op, size_t k0) {
        long kc = ((op.i(k0) % 10) + 10) % 10;
        switch (kc) {
        case 0: if (!cur.empty()) { ctx.label("key:smallest"); return cur.begin()->first; } break;
        case 1: if (!cur.empty()) { ctx.label("key:largest"); return cur.rbegin()->first; } break;
        case 2: if (cur.size() >= 3) { auto it = cur.begin(); std::advance(it, (long)cur.size() / 2); ctx.label("key:middle"); return it->first; } break;
        case 3: ctx.label("key:above-largest"); return cur.empty() ? std::string("zz") : cur.rbegin()->first + "z";
        case 4: ctx.label("key:below-smallest"); return std::string("0") + std::to_string(fresh++ % 7);
        default: break;
        }
        return kKeys[(size_t)(((op.i(k0 + 1) % 8) + 8) % 8)];
    }
    void verify(const char *when) {
        std::string want = pairs_text(cur);
        std::string got[3];
        for (int c = 0; c < 3; c++) {
            const char *inv = LA(c03_invariant(c, 0));
            VT_CHECK(ctx, inv == nullptr, "invariant", "structure:" << kCls[c] << "; " << inv << " " << when);
            long n = LA(c03_count(c, 0));
            VT_CHECK(ctx, n == (long)cur.size(), "mismatch", "count:" << kCls[c] << "; count=" << n << " expected " << cur.size() << " " << when);
            got[c] = LA(c03_seq_iter(c, 0, (int)cur.size() + 3));
            VT_CHECK(ctx, got[c] == want + "|h0", "mismatch", "iteration:" << kCls[c] << "; gives [" << got[c] << "] expected ascending [" << want << "|h0] " << when);
            std::string ks = LA(c03_get_list(c, 0, 0, 0, 0));
            VT_CHECK(ctx, ks == keys_text(cur), "mismatch", "get_keys:" << kCls[c] << "; gives [" << ks << "] expected [" << keys_text(cur) << "] " << when);
            for (auto &e : cur) {
                std::string g = LA(c03_get(c, e.first.c_str()));
                VT_CHECK(ctx, g == e.second, "mismatch", "get:" << kCls[c] << "; get(" << e.first << ") returned [" << g << "] expected [" << e.second << "] " << when);
            }
            if (has_other) {
                const char *inv2 = LA(c03_invariant(c, 1));
                VT_CHECK(ctx, inv2 == nullptr, "invariant", "structure-of-other:" << kCls[c] << "; " << inv2 << " " << when);
                std::string o = LA(c03_seq_iter(c, 1, (int)other.size() + 3));
                VT_CHECK(ctx, o == pairs_text(other) + "|h0", "mismatch", "dup-independence:" << kCls[c] << "; the other map reads [" << o << "] expected [" << pairs_text(other) << "] " << when);
            }
        }
        VT_CHECK(ctx, got[0] == got[1] && got[1] == got[2], "mismatch", "classes-disagree; array [" << got[0] << "] linked [" << got[1] << "] dlinked [" << got[2] << "]");
    }
    void run(const Case &c) {
        ht_install();
        tracker_begin(ctx);
        VT_CHECK(ctx, LA(c03_init()) == 1, "mismatch", "new; a map constructor returned NULL");
        for (int k = 0; k < 3; k++) VT_CHECK(ctx, LA(c03_type_ok(k)), "mismatch", "type:" << kCls[k] << "; type() does not identify the class");
        verify("after construction");
        for (size_t at = 0; at < c.size(); at++) {
            ctx.step((int)at);
            ht_set_tag((int)at);
            apply(c[at]);
            verify(("after " + c[at].name).c_str());
        }
        ctx.step((int)c.size());
        VT_CHECK(ctx, LA(c03_teardown()) == 1, "mismatch", "del; del returned FALSE");
        if (tracker_final(ctx)) {
        } else if (!ht_overflowed() && ht_live_count() != 0) {
            char buf[256];
            ht_describe(buf, sizeof buf);
            ctx.fail("leak", "heap-not-balanced; " + std::to_string(ht_live_count()) + " block(s), " + std::to_string(ht_live_bytes()) + " bytes live after deleting all maps: " + buf);
        }
        if (interesting) ctx.nontrivial();
        ctx.ok();
    }
    void apply(const Op &op) {
        const std::string &n = op.name;
        if (n == "set") {
            std::string k = key(op, 0), v = kVals[(size_t)(((op.i(2) % 6) + 6) % 6)];
            int aftermath = (int)(((op.i(3) % 5) + 5) % 5);
            bool existed = cur.count(k) > 0;
            if (armed) { interesting = true; }
            if (after_remove_largest && (cur.empty() || k > cur.rbegin()->first)) ctx.label("remove-largest-then-set-larger");
            if (after_remove_smallest) ctx.label("set-after-remove-smallest");
            for (int c = 0; c < 3; c++) {
                int r = LA(c03_set(c, k.c_str(), v.c_str(), aftermath));
                VT_CHECK(ctx, r == (existed ? 1 : 0), "mismatch", "set-return:" << kCls[c] << "; set(" << k << ") returned " << r << " but the key " << (existed ? "existed" : "was new"));
            }
            if (!(aftermath == 3 && existed)) cur[k] = v;   // set(m, k, get(m, k)) leaves the entry as it is
            if (aftermath == 3 && existed) ctx.label("set:value-is-the-map's-own-object");
            if (aftermath == 4) ctx.label("set:pair-form");
            if (existed) { ctx.label("set:overwrite"); armed = true; } else ctx.label("set:fresh");
            if (aftermath == 1) ctx.label("caller-mutates-key-and-value-after-set");
            if (aftermath == 2) ctx.label("caller-clears-key-and-value-after-set");
            if (cur.size() > 20) ctx.label("state:>20-keys");
            after_remove_largest = after_remove_smallest = false;
            return;
        }
        if (n == "get" || n == "has_key") {
            std::string k = key(op, 0);
            bool present = cur.count(k) > 0;
            if (armed) interesting = true;
            for (int c = 0; c < 3; c++) {
                if (n == "get") { std::string r = LA(c03_get(c, k.c_str())); std::string want = present ? cur[k] : "~"; VT_CHECK(ctx, r == want, "mismatch", "get:" << kCls[c] << "; get(" << k << ") returned [" << r << "] expected [" << want << "]"); }
                else { int r = LA(c03_has_key(c, k.c_str())); VT_CHECK(ctx, r == (present ? 1 : 0), "mismatch", "has_key:" << kCls[c] << "; has_key(" << k << ") returned " << r); }
            }
            if (!present) ctx.label(n + ":absent");
            return;
        }
        if (n == "has_value") {
            std::string v = kVals[(size_t)(((op.i(0) % 6) + 6) % 6)];
            bool present = false;
            for (auto &e : cur) if (e.second == v) present = true;
            for (int c = 0; c < 3; c++) { int r = LA(c03_has_value(c, v.c_str())); VT_CHECK(ctx, r == (present ? 1 : 0), "mismatch", "has_value:" << kCls[c] << "; has_value(" << v << ") returned " << r); }
            return;
        }
        if (n == "remove") {
            std::string k = key(op, 0);
            bool present = cur.count(k) > 0;
            std::string want = present ? k + "=" + cur[k] : "~";
            bool largest = present && k == cur.rbegin()->first, smallest = present && k == cur.begin()->first;
            for (int c = 0; c < 3; c++) {
                std::string r = LA(c03_remove(c, k.c_str()));
                VT_CHECK(ctx, r == want, "mismatch", "remove-return:" << kCls[c] << "; remove(" << k << ") returned [" << r << "] expected [" << want << "]");
            }
            if (present) {
                cur.erase(k);
                armed = true;
                // exactly once: an immediate second remove must report nothing
                for (int c = 0; c < 3; c++) { std::string r = LA(c03_remove(c, k.c_str())); VT_CHECK(ctx, r == "~", "mismatch", "remove-twice:" << kCls[c] << "; a second remove(" << k << ") returned [" << r << "]"); }
                after_remove_largest = largest; after_remove_smallest = smallest;
                if (largest) ctx.label("remove:largest");
                if (smallest) ctx.label("remove:smallest");
                if (!largest && !smallest) ctx.label("remove:middle");
            } else ctx.label("remove:absent");
            return;
        }
        if (n == "getlist") {
            int what = (int)(((op.i(0) % 3) + 3) % 3), kind = (int)(((op.i(1) % 4) + 4) % 4), pre = (int)(((op.i(2) % 3) + 3) % 3);
            std::string want = what == 0 ? keys_text(cur) : what == 1 ? vals_text(cur) : pairs_text(cur);
            for (int c = 0; c < 3; c++) {
                std::string r = LA(c03_get_list(c, 0, what, kind, pre));
                VT_CHECK(ctx, r == want, "mismatch", "get_list:" << kCls[c] << "; " << (what == 0 ? "get_keys" : what == 1 ? "get_values" : "get_pairs") << " gives [" << r << "] expected [" << want << "]");
            }
            ctx.label(kind ? "get_*:caller-supplied-list" : "get_*:null-target");
            return;
        }
        if (n == "dup") {
            for (int c = 0; c < 3; c++) { int r = LA(c03_dup(c)); VT_CHECK(ctx, r == 1, "mismatch", "dup:" << kCls[c] << "; dup " << (r == 0 ? "returned NULL" : r == -1 ? "returned the same object" : "returned an object of another class")); }
            other = cur; has_other = true; ctx.label("dup");
            if (cur.empty()) ctx.label("dup:empty");
            return;
        }
        if (n == "swap") { if (!has_other) return; for (int c = 0; c < 3; c++) c03_swap(c); std::swap(cur, other); ctx.label("op-on-dup"); return; }
        if (n == "done") { for (int c = 0; c < 3; c++) VT_CHECK(ctx, LA(c03_done(c)) == 1, "mismatch", "done:" << kCls[c] << "; done returned FALSE"); cur.clear(); ctx.label("done-then-reuse"); return; }
        ctx.fail("harness", "unknown op " + n);
    }
};

rc::Gen<Op> gen_op() {
    return rc::gen::exec([]() {
        int k = (int)*range(0, 99);
        if (k < 40) return mk("set", {*range(0, 9), *range(0, 7), *range(0, 5), *range(0, 4)});
        if (k < 52) return mk("get", {*range(0, 9), *range(0, 7)});
        if (k < 70) return mk("remove", {*range(0, 9), *range(0, 7)});
        if (k < 75) return mk("has_key", {*range(0, 9), *range(0, 7)});
        if (k < 79) return mk("has_value", {*range(0, 5)});
        if (k < 88) return mk("getlist", {*range(0, 2), *range(0, 3), *range(0, 2)});
        if (k < 93) return mk("dup");
        if (k < 97) return mk("swap");
        return mk("done");
    });
}
struct C03 : Harness {
    const char *property() const override { return "C03"; }
    const char *rule() const override { return ""; }
    void run(const Case &c, Ctx &ctx) override { Interp in(ctx); in.run(c); }
    bool search(const std::string &, const std::function<bool(const Case &)> &try_case) override {
        return rc_search("C03 three map classes vs std::map", rc::gen::container<std::vector<Op>>(gen_op()), try_case);
    }
};
}  // namespace
vt::Harness *vt::make_harness() { return new C03(); }
