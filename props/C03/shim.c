/* C03 shim: the three map classes through the SPIF_MAP_* interface; keys and values are spif_str. */
#include "config.h"
#include <libast.h>
extern unsigned int vt_base_level;   /* engine/tracker_shim.c */
#include <sanitizer/allocator_interface.h>

#define NCLS 3
static spif_map_t M[NCLS][2];
static char outbuf[1 << 17];
static int nput; /* elements written to outbuf so far (separator logic) */

static spif_map_t mk(int cls)
{
    switch (cls) {
    case 0: return SPIF_MAP_NEW(array);
    case 1: return SPIF_MAP_NEW(linked_list);
    default: return SPIF_MAP_NEW(dlinked_list);
    }
}
static spif_class_t cls_of(int cls)
{
    switch (cls) {
    case 0: return SPIF_CLASS(SPIF_MAPCLASS_VAR(array));
    case 1: return SPIF_CLASS(SPIF_MAPCLASS_VAR(linked_list));
    default: return SPIF_CLASS(SPIF_MAPCLASS_VAR(dlinked_list));
    }
}
static spif_list_t mklist(int kind)
{
    switch (kind) {
    case 1: return SPIF_LIST_NEW(array);
    case 2: return SPIF_LIST_NEW(linked_list);
    case 3: return SPIF_LIST_NEW(dlinked_list);
    default: return (spif_list_t) NULL;
    }
}
static spif_obj_t word(const char *w)
{
    size_t n = strlen(w);
    char *p = (char *) malloc(n + 1);
    spif_str_t s;
    memcpy(p, w, n + 1);
    s = spif_str_new_from_ptr((spif_charptr_t) p);
    free(p);
    return SPIF_OBJ(s);
}
static const char *txt(spif_obj_t o) { return SPIF_OBJ_ISNULL(o) ? "<NULL>" : (const char *) SPIF_STR_STR(SPIF_STR(o)); }
static int putpair(size_t *off, spif_obj_t p)
{
    int w;
    if (SPIF_OBJ_ISNULL(p)) w = snprintf(outbuf + *off, sizeof(outbuf) - *off, "%s~", nput ? "," : "");
    else if (!SPIF_OBJ_IS_OBJPAIR(p)) w = snprintf(outbuf + *off, sizeof(outbuf) - *off, "%s!not-a-pair", nput ? "," : "");
    else w = snprintf(outbuf + *off, sizeof(outbuf) - *off, "%s%s=%s", nput ? "," : "", txt(SPIF_OBJPAIR(p)->key), txt(SPIF_OBJPAIR(p)->value));
    if (w < 0 || (size_t) w >= sizeof(outbuf) - *off) return 0;
    *off += (size_t) w;
    nput++;
    return 1;
}
static int putstr(size_t *off, spif_obj_t o)
{
    int w = snprintf(outbuf + *off, sizeof(outbuf) - *off, "%s%s", nput ? "," : "", SPIF_OBJ_ISNULL(o) ? "~" : txt(o));
    if (w < 0 || (size_t) w >= sizeof(outbuf) - *off) return 0;
    *off += (size_t) w;
    nput++;
    return 1;
}

int c03_init(void)
{
    int c;
    libast_debug_level = vt_base_level;
    for (c = 0; c < NCLS; c++) { M[c][0] = mk(c); M[c][1] = NULL; if (SPIF_MAP_ISNULL(M[c][0])) return 0; }
    return 1;
}
int c03_type_ok(int cls)
{
    const void *t = (const void *) SPIF_OBJ_TYPE(M[cls][0]);
    spif_class_t k = cls_of(cls);
    return t == (const void *) k || t == (const void *) k->classname;
}
/* set with caller-side aftermath: 0 just delete own key/value; 1 mutate them first (append), then delete;
 * 2 clear them (same length, other text) then delete; the map must be unaffected in every case */
int c03_set(int cls, const char *k, const char *v, int aftermath)
{
    spif_obj_t ko = word(k), vo = word(v);
    int r;
    if (aftermath == 3) {
        /* the value handed in is the map's own stored object: set(m, k, get(m, k)) must leave the entry as it is */
        spif_obj_t own = SPIF_MAP_GET(M[cls][0], ko);
        r = own ? SPIF_MAP_SET(M[cls][0], ko, own) : SPIF_MAP_SET(M[cls][0], ko, vo);
        SPIF_OBJ_DEL(ko); SPIF_OBJ_DEL(vo);
        return r;
    }
    if (aftermath == 4) {
        /* pair form: set(m, pair, NULL).  The map keeps its own copies: the caller changes and deletes its pair afterwards */
        spif_objpair_t p = spif_objpair_new_from_both(ko, vo);
        r = SPIF_MAP_SET(M[cls][0], SPIF_OBJ(p), (spif_obj_t) NULL);
        spif_str_append_from_ptr(SPIF_STR(p->key), (spif_charptr_t) "#mut"); spif_str_clear(SPIF_STR(p->value), 'Q');
        spif_objpair_del(p);
        SPIF_OBJ_DEL(ko); SPIF_OBJ_DEL(vo);
        return r;
    }
    r = SPIF_MAP_SET(M[cls][0], ko, vo);
    if (aftermath == 1) { spif_str_append_from_ptr(SPIF_STR(ko), (spif_charptr_t) "#mut"); spif_str_prepend_char(SPIF_STR(vo), '!'); }
    else if (aftermath == 2) { spif_str_clear(SPIF_STR(ko), 'Q'); spif_str_clear(SPIF_STR(vo), 'Q'); }
    SPIF_OBJ_DEL(ko);
    SPIF_OBJ_DEL(vo);
    return r;
}
const char *c03_get(int cls, const char *k)
{
    spif_obj_t ko = word(k), r = SPIF_MAP_GET(M[cls][0], ko);
    size_t off = 0;
    outbuf[0] = 0; nput = 0;
    putstr(&off, r);
    SPIF_OBJ_DEL(ko);
    return outbuf;
}
/* the removed pair belongs to the caller: report it, then delete it */
const char *c03_remove(int cls, const char *k)
{
    spif_obj_t ko = word(k), r = SPIF_MAP_REMOVE(M[cls][0], ko);
    size_t off = 0;
    outbuf[0] = 0; nput = 0;
    putpair(&off, r);
    SPIF_OBJ_DEL(ko);
    if (!SPIF_OBJ_ISNULL(r)) SPIF_OBJ_DEL(r);
    return outbuf;
}
int c03_has_key(int cls, const char *k) { spif_obj_t ko = word(k); int r = SPIF_MAP_HAS_KEY(M[cls][0], ko); SPIF_OBJ_DEL(ko); return r; }
int c03_has_value(int cls, const char *v) { spif_obj_t vo = word(v); int r = SPIF_MAP_HAS_VALUE(M[cls][0], vo); SPIF_OBJ_DEL(vo); return r; }
long c03_count(int cls, int which) { return (long) SPIF_MAP_COUNT(M[cls][which]); }
/* what: 0 keys 1 values 2 pairs; listkind: 0 = NULL target (the map makes the list), 1..3 caller-supplied list
 * of that class, pre-filled with `prefill` marker elements that must survive in front */
const char *c03_get_list(int cls, int which, int what, int listkind, int prefill)
{
    spif_list_t target = mklist(listkind), res;
    size_t off = 0;
    int i, n;
    outbuf[0] = 0; nput = 0;
    for (i = 0; target && i < prefill; i++) SPIF_LIST_APPEND(target, word("PRE"));
    switch (what) {
    case 0: res = SPIF_MAP_GET_KEYS(M[cls][which], target); break;
    case 1: res = SPIF_MAP_GET_VALUES(M[cls][which], target); break;
    default: res = SPIF_MAP_GET_PAIRS(M[cls][which], target); break;
    }
    if (SPIF_LIST_ISNULL(res)) { if (target) SPIF_LIST_DEL(target); return "!returned NULL"; }
    if (target && res != target) { SPIF_LIST_DEL(target); SPIF_LIST_DEL(res); return "!did not use the supplied list"; }
    n = (int) SPIF_LIST_COUNT(res);
    for (i = 0; i < n; i++) {
        spif_obj_t e = SPIF_LIST_GET(res, i);
        if (target && i < prefill) { if (strcmp(txt(e), "PRE")) { SPIF_LIST_DEL(res); return "!prefilled elements disturbed"; } continue; }
        if (what == 2) { if (!putpair(&off, e)) break; } else { if (!putstr(&off, e)) break; }
    }
    SPIF_LIST_DEL(res);   /* the list and its copies belong to the caller */
    return outbuf;
}
const char *c03_seq_iter(int cls, int which, int limit)
{
    size_t off = 0;
    int k = 0;
    spif_iterator_t it = SPIF_MAP_ITERATOR(M[cls][which]);
    outbuf[0] = 0; nput = 0;
    if (SPIF_ITERATOR_ISNULL(it)) return "!iterator is NULL";
    while (k < limit && SPIF_ITERATOR_HAS_NEXT(it)) { if (!putpair(&off, SPIF_ITERATOR_NEXT(it))) break; k++; }
    off += (size_t) snprintf(outbuf + off, sizeof(outbuf) - off, "|h%d", SPIF_ITERATOR_HAS_NEXT(it) ? 1 : 0);
    SPIF_OBJ_DEL(SPIF_OBJ(it));
    return outbuf;
}
int c03_dup(int cls)
{
    if (M[cls][1]) { SPIF_OBJ_DEL(M[cls][1]); M[cls][1] = NULL; }
    M[cls][1] = (spif_map_t) SPIF_OBJ_DUP(M[cls][0]);
    if (SPIF_MAP_ISNULL(M[cls][1])) return 0;
    if (M[cls][1] == M[cls][0]) return -1;
    if (SPIF_OBJ_CLASS(M[cls][1]) != SPIF_OBJ_CLASS(M[cls][0])) return -2;
    return 1;
}
int c03_swap(int cls) { spif_map_t t = M[cls][0]; M[cls][0] = M[cls][1]; M[cls][1] = t; return 1; }
int c03_done(int cls) { return SPIF_OBJ_DONE(M[cls][0]); }
int c03_teardown(void)
{
    int c, w, ok = 1;
    for (c = 0; c < NCLS; c++) for (w = 0; w < 2; w++) if (M[c][w]) { if (!SPIF_OBJ_DEL(M[c][w])) ok = 0; M[c][w] = NULL; }
    return ok;
}
const char *c03_invariant(int cls, int which)
{
    spif_map_t l = M[cls][which];
    static char msg[200];
    if (!l) return NULL;
    if (cls == 0) {
        spif_array_t a = SPIF_ARRAY(l);
        if (a->len < 0) return "array len negative";
        if (a->len > 0 && !a->items) return "array items NULL with len > 0";
        if (a->items && __sanitizer_get_allocated_size(a->items) < sizeof(spif_obj_t) * (size_t) a->len) return "array items block smaller than len";
    } else if (cls == 1) {
        spif_linked_list_t ll = SPIF_LINKED_LIST(l);
        spif_linked_list_item_t cur;
        long n = 0;
        for (cur = ll->head; cur && n <= (long) ll->len + 1; cur = cur->next) n++;
        if (n != (long) ll->len) { snprintf(msg, sizeof(msg), "linked chain length %ld != len %d", n, (int) ll->len); return msg; }
    } else {
        spif_dlinked_list_t dl = SPIF_DLINKED_LIST(l);
        spif_dlinked_list_item_t cur, last = NULL;
        long n = 0;
        if ((dl->head == NULL) != (dl->tail == NULL)) return "dlinked head/tail NULL-ness differs";
        if (dl->head && dl->head->prev) return "dlinked head->prev not NULL";
        if (dl->tail && dl->tail->next) return "dlinked tail->next not NULL";
        for (cur = dl->head; cur && n <= (long) dl->len + 1; cur = cur->next) {
            if (cur->prev != last) { snprintf(msg, sizeof(msg), "dlinked back-link of node %ld does not point at its predecessor", n); return msg; }
            last = cur; n++;
        }
        if (n != (long) dl->len) { snprintf(msg, sizeof(msg), "dlinked chain length %ld != len %d", n, (int) dl->len); return msg; }
        if (last != dl->tail) return "dlinked tail is not the last node";
    }
    return NULL;
}
