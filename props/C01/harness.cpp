// C01 - str/ustr are faithful character-sequence values under any history.
// Generator (rapidcheck) + reference model (std::string) + interpreter.  libast is reached only
// through props/C01/shim.c.
#include "../../engine/rcglue.hpp"
#include "tracker.hpp"
#include "../../engine/latrack.hpp"
#include <cmath>
#include <climits>
#include <strings.h>

extern "C" {
void c01_read_schedule(int, int);
void c01_init(int cls); int c01_exists(int);
int c01_new(int); int c01_new_from_ptr(int, const char *, long, int); int c01_new_from_buff(int, const char *, long, long, int, int);
int c01_new_from_num(int, long, int); int c01_new_from_fp(int, const char *, long, int, int, int, const char *);
int c01_new_from_fd(int, const char *, long, int, int, const char *);
int c01_done(int); int c01_del(int); int c01_dup(int, int); int c01_obj_dup(int, int); int c01_type_ok(int);
int c01_append(int, int); int c01_append_ptr(int, const char *, long, int); int c01_append_char(int, int);
int c01_prepend(int, int); int c01_prepend_ptr(int, const char *, long, int); int c01_prepend_char(int, int);
int c01_splice(int, long, long, int); int c01_splice_ptr(int, long, long, const char *, long, int);
int c01_trim(int); int c01_reverse(int); int c01_upcase(int); int c01_downcase(int); int c01_clear(int, int);
int c01_sprintf(int, int, const char *, long, long, double);
long c01_index(int, int); long c01_rindex(int, int); long c01_find(int, int); long c01_find_ptr(int, const char *, long, int);
int c01_substr(int, long, long, int); char *c01_substr_to_ptr(int, long, long, long *); void c01_free(void *);
int c01_cmp(int, int, int, long); int c01_cmp_ptr(int, int, const char *, long, int, long);
unsigned long c01_to_num(int, int); double c01_to_float(int); long c01_get_len(int); long c01_get_size(int); long c01_show(int);
void c01_state(int, const char **, long *, long *, long *);
}

// every call into the shim runs with heap tracking on (and only those)
#define c01_append(...) LA(c01_append(__VA_ARGS__))
#define c01_append_char(...) LA(c01_append_char(__VA_ARGS__))
#define c01_append_ptr(...) LA(c01_append_ptr(__VA_ARGS__))
#define c01_clear(...) LA(c01_clear(__VA_ARGS__))
#define c01_cmp(...) LA(c01_cmp(__VA_ARGS__))
#define c01_cmp_ptr(...) LA(c01_cmp_ptr(__VA_ARGS__))
#define c01_del(...) LA(c01_del(__VA_ARGS__))
#define c01_done(...) LA(c01_done(__VA_ARGS__))
#define c01_downcase(...) LA(c01_downcase(__VA_ARGS__))
#define c01_dup(...) LA(c01_dup(__VA_ARGS__))
#define c01_find(...) LA(c01_find(__VA_ARGS__))
#define c01_find_ptr(...) LA(c01_find_ptr(__VA_ARGS__))
#define c01_get_len(...) LA(c01_get_len(__VA_ARGS__))
#define c01_get_size(...) LA(c01_get_size(__VA_ARGS__))
#define c01_index(...) LA(c01_index(__VA_ARGS__))
#define c01_new(...) LA(c01_new(__VA_ARGS__))
#define c01_new_from_buff(...) LA(c01_new_from_buff(__VA_ARGS__))
#define c01_new_from_fd(...) LA(c01_new_from_fd(__VA_ARGS__))
#define c01_new_from_fp(...) LA(c01_new_from_fp(__VA_ARGS__))
#define c01_new_from_num(...) LA(c01_new_from_num(__VA_ARGS__))
#define c01_new_from_ptr(...) LA(c01_new_from_ptr(__VA_ARGS__))
#define c01_obj_dup(...) LA(c01_obj_dup(__VA_ARGS__))
#define c01_prepend(...) LA(c01_prepend(__VA_ARGS__))
#define c01_prepend_char(...) LA(c01_prepend_char(__VA_ARGS__))
#define c01_prepend_ptr(...) LA(c01_prepend_ptr(__VA_ARGS__))
#define c01_reverse(...) LA(c01_reverse(__VA_ARGS__))
#define c01_rindex(...) LA(c01_rindex(__VA_ARGS__))
#define c01_show(...) LA(c01_show(__VA_ARGS__))
#define c01_splice(...) LA(c01_splice(__VA_ARGS__))
#define c01_splice_ptr(...) LA(c01_splice_ptr(__VA_ARGS__))
#define c01_sprintf(...) LA(c01_sprintf(__VA_ARGS__))
#define c01_substr(...) LA(c01_substr(__VA_ARGS__))
#define c01_substr_to_ptr(...) LA(c01_substr_to_ptr(__VA_ARGS__))
#define c01_to_float(...) LA(c01_to_float(__VA_ARGS__))
#define c01_to_num(...) LA(c01_to_num(__VA_ARGS__))
#define c01_trim(...) LA(c01_trim(__VA_ARGS__))
#define c01_type_ok(...) LA(c01_type_ok(__VA_ARGS__))
#define c01_upcase(...) LA(c01_upcase(__VA_ARGS__))

using namespace vt;

namespace {

// slots: 0 subject, 1..3 helpers, 4 dup, 5 substr result
enum { SUBJ = 0, H1 = 1, DUPS = 4, SUB = 5, NSLOT = 8 };

const char *kPosNames[] = {"farneg", "-len-1", "-len", "-1", "0", "1", "mid", "len-1", "len", "len+1", "far", "raw"};

long resolve_pos(long cls, long raw, long len) {
    switch (cls) {
    case 0: return -len - 7;
    case 1: return -len - 1;
    case 2: return -len;
    case 3: return -1;
    case 4: return 0;
    case 5: return 1;
    case 6: return len / 2;
    case 7: return len - 1;
    case 8: return len;
    case 9: return len + 1;
    case 10: return len + 9;
    default: return raw;
    }
}
// counts are classes relative to the remainder rem = len - idx_normalised
long resolve_cnt(long cls, long raw, long rem) {
    if (rem < 0) rem = 0;
    switch (cls) {
    case 0: return -rem - 7;
    case 1: return -rem - 1;
    case 2: return -rem;
    case 3: return -1;
    case 4: return 0;
    case 5: return 1;
    case 6: return rem / 2;
    case 7: return rem - 1;
    case 8: return rem;
    case 9: return rem + 1;
    case 10: return rem + 9;
    default: return raw;
    }
}

std::string expand(const std::string &unit, long rep, const std::string &tail = "") {
    std::string s;
    if (rep < 0) rep = 0;
    s.reserve(unit.size() * (size_t)rep + tail.size());
    for (long i = 0; i < rep; i++) s += unit;
    s += tail;
    return s;
}

struct Model {
    bool exists = false;
    std::string text;
};

int sgn(int v) { return v < 0 ? -1 : (v > 0 ? 1 : 0); }

struct Interp {
    Ctx &ctx;
    Model m[NSLOT];
    int cur = SUBJ;
    int mutations = 0;
    bool interesting = false;
    std::string scratch;
    explicit Interp(Ctx &c) : ctx(c) {}

    void check_slot(int i, const char *when) {
        if (!m[i].exists) return;
        const char *s; long len, size, alloc;
        c01_state(i, &s, &len, &size, &alloc);
        const std::string &t = m[i].text;
        if (s == nullptr) {
            VT_CHECK(ctx, len == 0 && size == 0, "invariant", "null-buffer-nonzero-bookkeeping; slot " << i << " " << when << " len=" << len << " size=" << size);
            VT_CHECK(ctx, t.empty(), "mismatch", "text; slot " << i << " " << when << ": object is empty (NULL buffer), model has \"" << printable(t) << "\"");
            return;
        }
        VT_CHECK(ctx, len == (long)t.size(), "mismatch", "len; slot " << i << " " << when << ": len=" << len << " expected " << t.size() << " (model \"" << printable(t, 40) << "\")");
        VT_CHECK(ctx, size > len, "invariant", "capacity-not-above-length; slot " << i << " " << when << ": size=" << size << " len=" << len);
        VT_CHECK(ctx, alloc >= size, "invariant", "capacity-exceeds-allocation; slot " << i << " " << when << ": reported size=" << size << " real allocation=" << alloc);
        VT_CHECK(ctx, alloc > len, "invariant", "allocation-too-small; slot " << i << " " << when << ": len=" << len << " alloc=" << alloc);
        VT_CHECK(ctx, s[len] == 0, "invariant", "not-terminated-at-len; slot " << i << " " << when << " len=" << len);
        VT_CHECK(ctx, memcmp(s, t.data(), t.size()) == 0, "mismatch", "text; slot " << i << " " << when << ": got \"" << printable(std::string(s, (size_t)len)) << "\" expected \"" << printable(t) << "\"");
        VT_CHECK(ctx, (long)strlen(s) == len, "invariant", "strlen-differs-from-len; slot " << i << " " << when);
        VT_CHECK(ctx, c01_get_len(i) == len && c01_get_size(i) == size, "mismatch", "accessors; get_len/get_size disagree with the object; slot " << i);
    }
    void check_all(const char *when) { for (int i = 0; i < NSLOT; i++) check_slot(i, when); }

    // byte-wise snapshot for "refused => unchanged"
    struct Snap { const char *s; long len, size; std::string bytes; };
    Snap snap(int i) {
        Snap sn; long alloc;
        c01_state(i, &sn.s, &sn.len, &sn.size, &alloc);
        if (sn.s) sn.bytes.assign(sn.s, (size_t)sn.len + 1);
        return sn;
    }
    void require_unchanged(int i, const Snap &a, const char *what) {
        Snap b = snap(i);
        VT_CHECK(ctx, a.s == b.s && a.len == b.len && a.size == b.size && a.bytes == b.bytes, "mismatch",
                 "refused-op-changed-value; " << what << " was refused but the object changed (len " << a.len << "->" << b.len << ", size " << a.size << "->" << b.size << ")");
    }

    void construct(const Op &op, int i, bool reinit) {
        // op.name is the constructor kind
        const std::string &k = op.name;
        Model &mo = m[i];
        int r = 1;
        if (k == "new" ) {
            if (reinit) { /* plain init is not exposed separately; done() left it in the init state */ }
            else r = c01_new(i);
            mo.text.clear();
            ctx.label("ctor:new");
        } else if (k == "new_ptr") {
            std::string t = expand(op.s(0), op.i(0, 1));
            r = c01_new_from_ptr(i, t.data(), (long)t.size(), reinit);
            mo.text = t;
            ctx.label("ctor:ptr");
            if (t.empty()) ctx.label("ctor:ptr-empty");
        } else if (k == "new_buff") {
            std::string t = expand(op.s(0), op.i(0, 1));
            long mode = op.i(1), n = (long)t.size(), size;
            switch (mode) {           // size relative to the text length
            case 0: size = n; break;
            case 1: size = n + 1; break;
            case 2: size = n + 1 + op.i(2) % 64; break;
            case 3: size = n ? (op.i(2) % n) : 0; break;   // < len: truncating
            default: size = op.i(2) % 100; break;           // NULL buffer
            }
            if (size < 0) size = 0;
            bool nullbuf = (mode >= 4);
            r = c01_new_from_buff(i, t.data(), n, size, nullbuf, reinit);
            mo.text = nullbuf ? std::string() : t.substr(0, (size_t)std::min(n, size));
            ctx.label("ctor:buff");
            ctx.label(std::string("ctor:buff-mode") + std::to_string(mode >= 4 ? 4 : mode));
            if (r) {
                const char *s; long len, sz, alloc;
                c01_state(i, &s, &len, &sz, &alloc);
                long want = (size == (long)mo.text.size()) ? size + 1 : size;
                VT_CHECK(ctx, sz == want, "mismatch", "buff-capacity; new_from_buff(size=" << size << ") on text of " << n << " bytes reports capacity " << sz << " expected " << want);
            }
        } else if (k == "new_num") {
            long num = op.i(0);
            r = c01_new_from_num(i, num, reinit);
            mo.text = std::to_string(num);
            ctx.label("ctor:num");
        } else if (k == "new_fp" || k == "new_fd") {
            // text = unit*rep + tail ; kind 0 pipe / 1 file ; skip lines (fp only)
            std::string t = expand(op.s(0), op.i(0, 1), op.s(1));
            int kind = (int)(op.i(1) & 1);
            if (k == "new_fp") {
                int skip = (int)(op.i(2) % 3);
                size_t pos = 0;
                std::string line;
                for (int l = 0; l <= skip; l++) {
                    size_t nl = t.find('\n', pos);
                    if (nl == std::string::npos) { line = t.substr(pos); pos = t.size(); }
                    else { line = t.substr(pos, nl - pos); pos = nl + 1; }
                }
                r = c01_new_from_fp(i, t.data(), (long)t.size(), kind, skip, reinit, config().scratch_dir.c_str());
                mo.text = line;
                ctx.label("ctor:fp");
                ctx.label(kind ? "ctor:fp-file" : "ctor:fp-pipe");
                if (line.size() > 4096) ctx.label("stream>4096:fp");
                if (line.size() >= 4094 && line.size() <= 4097) ctx.label("stream~4096:fp");
                if (skip) ctx.label("ctor:fp-second-line");
                if (line.size() > 4094) interesting = true;
            } else {
                static const int caps[] = {0, 1, 100, 4095, 5000};
                int cap = caps[((op.i(3) % 5) + 5) % 5], eintr = (int)(((op.i(4) % 3) + 3) % 3);
                if (cap == 1 && t.size() > 6000) cap = 100;
                c01_read_schedule(cap, eintr);
                if (cap) ctx.label("fd:short-reads");
                if (eintr) ctx.label("fd:EINTR");
                r = c01_new_from_fd(i, t.data(), (long)t.size(), kind, reinit, config().scratch_dir.c_str());
                mo.text = t;
                ctx.label("ctor:fd");
                ctx.label(kind ? "ctor:fd-file" : "ctor:fd-pipe");
                if (t.size() > 4096) ctx.label("stream>4096:fd");
                if (t.size() >= 4095 && t.size() <= 4097) ctx.label("stream~4096:fd");
                if (t.empty()) ctx.label("stream-empty:fd");
                if (t.size() > 4094) interesting = true;
            }
            VT_CHECK(ctx, r >= 0, "harness", "could not create descriptor");
        } else {
            ctx.fail("harness", "unknown constructor " + k);
        }
        VT_CHECK(ctx, r == 1, "mismatch", "ctor-failed; constructor " << k << " returned failure");
        mo.exists = true;
        if (reinit) ctx.label("reinit-after-done");
    }

    static bool is_ctor(const std::string &n) { return n.rfind("new", 0) == 0; }

    int other_slot(long k) {  // helper reference -> slot or -1 (NULL) when that helper does not exist
        int s = H1 + (int)(((k % 3) + 3) % 3);
        return m[s].exists ? s : -1;
    }

    void run(const Case &c) {
        ht_install();
        tracker_begin(ctx);
        size_t at = 0;
        int cls = 0;
        if (at < c.size() && c[at].name == "cls") { cls = (int)(c[at].i(0) & 1); at++; }
        c01_init(cls);
        ctx.label(cls ? "class:ustr" : "class:str");
        // first constructor (default: new)
        if (at < c.size() && is_ctor(c[at].name)) { ctx.step((int)at); ht_set_tag((int)at); construct(c[at], SUBJ, false); at++; }
        else { ht_set_tag(-1); construct(mk("new"), SUBJ, false); }
        check_all("after construction");
        {
            VT_CHECK(ctx, c01_type_ok(SUBJ), "mismatch", "type; type() does not identify the class");
        }
        for (; at < c.size(); at++) {
            const Op &op = c[at];
            ctx.step((int)at);
            ht_set_tag((int)at);
            apply(op);
            check_all(("after " + op.name).c_str());
        }
        // teardown: delete everything, heap must balance
        ctx.step((int)c.size());
        for (int i = 0; i < NSLOT; i++) if (m[i].exists) { int r = c01_del(i); VT_CHECK(ctx, r == 1, "mismatch", "del; del returned FALSE"); m[i].exists = false; }
        if (tracker_final(ctx)) {
        } else if (!ht_overflowed() && ht_live_count() != 0) {
            char buf[256];
            ht_describe(buf, sizeof buf);
            ctx.fail("leak", "heap-not-balanced; " + std::to_string(ht_live_count()) + " block(s), " + std::to_string(ht_live_bytes()) + " bytes still live after deleting every object: " + buf);
        }
        if (mutations >= 3 && interesting) ctx.nontrivial();
        ctx.ok();
    }

    void pos_label(const char *opn, long cls) {
        if (cls >= 0 && cls <= 10) {
            ctx.label(std::string(opn) + ":idx=" + kPosNames[cls]);
            if (cls == 1 || cls == 2 || cls == 3 || cls == 7 || cls == 8 || cls == 9) interesting = true;
        }
    }

    void apply(const Op &op) {
        const std::string &n = op.name;
        Model &mo = m[cur];
        const long len = (long)mo.text.size();
        bool was_empty_unalloc = false;
        { const char *s; long l, sz, al; c01_state(cur, &s, &l, &sz, &al); was_empty_unalloc = (s == nullptr); }

        if (n == "helper") {   // (re)create helper k from text, or as an empty new() object
            int s = H1 + (int)(((op.i(0) % 3) + 3) % 3);
            if (m[s].exists) { c01_del(s); m[s].exists = false; }
            if (op.i(1) == 0) { std::string t = expand(op.s(0), op.i(2, 1)); c01_new_from_ptr(s, t.data(), (long)t.size(), 0); m[s].text = t; }
            else { c01_new(s); m[s].text.clear(); ctx.label("helper:empty-new"); }
            m[s].exists = true;
            return;
        }
        if (n == "append" || n == "prepend") {
            int o = other_slot(op.i(0));
            if (((op.i(0) % 7) + 7) % 7 == 6 && mo.text.size() <= 32768) { o = cur; ctx.label(n + ":the-same-object-on-both-sides"); interesting = true; }   // (bounded: every self-append doubles the text)   // x.append(x): a value operation like any other
            Snap before = snap(cur);
            int r = (n == "append") ? c01_append(cur, o) : c01_prepend(cur, o);
            if (o < 0) {
                ctx.label(n + ":null-other");
                VT_CHECK(ctx, r == 0, "mismatch", "null-other-accepted; " << n << "(NULL) returned TRUE");
                require_unchanged(cur, before, n.c_str());
                return;
            }
            VT_CHECK(ctx, r == 1, "mismatch", "return; " << n << " returned FALSE");
            { std::string ot = m[o].text; if (n == "append") mo.text += ot; else mo.text = ot + mo.text; }
            mutations++;
            if (was_empty_unalloc && !m[o].text.empty()) { ctx.label("first-growth-on-empty:" + n); interesting = true; }
            if (m[o].text.empty()) ctx.label(n + ":empty-other");
            return;
        }
        if (n == "append_ptr" || n == "prepend_ptr") {
            bool isnull = op.i(1) == 1;
            std::string t = expand(op.s(0), op.i(0, 1));
            Snap before = snap(cur);
            int r = (n == "append_ptr") ? c01_append_ptr(cur, t.data(), (long)t.size(), isnull) : c01_prepend_ptr(cur, t.data(), (long)t.size(), isnull);
            if (isnull) {
                ctx.label(n + ":null");
                VT_CHECK(ctx, r == 0, "mismatch", "null-other-accepted; " << n << "(NULL) returned TRUE");
                require_unchanged(cur, before, n.c_str());
                return;
            }
            VT_CHECK(ctx, r == 1, "mismatch", "return; " << n << " returned FALSE");
            if (n == "append_ptr") mo.text += t; else mo.text = t + mo.text;
            mutations++;
            if (was_empty_unalloc && !t.empty()) { ctx.label("first-growth-on-empty:" + n); interesting = true; }
            if (t.size() > 4096) ctx.label(n + ":multi-kB");
            return;
        }
        if (n == "append_char" || n == "prepend_char") {
            int ch = (int)(op.i(0) & 0xff);
            if (ch == 0) ch = 'z';
            int r = (n == "append_char") ? c01_append_char(cur, ch) : c01_prepend_char(cur, ch);
            VT_CHECK(ctx, r == 1, "mismatch", "return; " << n << " returned FALSE");
            if (n == "append_char") mo.text.push_back((char)ch); else mo.text.insert(mo.text.begin(), (char)ch);
            mutations++;
            if (was_empty_unalloc) { ctx.label("first-growth-on-empty:" + n); interesting = true; }
            return;
        }
        if (n == "splice" || n == "splice_ptr") {
            long icls = op.i(0), iraw = op.i(1), ccls = op.i(2), craw = op.i(3);
            long idx = resolve_pos(icls, iraw, len);
            long nidx = idx < 0 ? idx + len : idx;
            long cnt = resolve_cnt(ccls, craw, len - nidx);
            std::string repl;
            int o = -1;
            bool isnull = false;
            if (n == "splice") { o = other_slot(op.i(4)); if (((op.i(4) % 7) + 7) % 7 == 6 && mo.text.size() <= 32768) { o = cur; ctx.label("splice:the-same-object-on-both-sides"); interesting = true; } if (o >= 0) repl = m[o].text; }
            else { isnull = op.i(4) == 1; if (!isnull) repl = expand(op.s(0), op.i(5, 1)); }
            pos_label("splice", icls);
            Snap before = snap(cur);
            int r = (n == "splice") ? c01_splice(cur, idx, cnt, o) : c01_splice_ptr(cur, idx, cnt, repl.data(), (long)repl.size(), isnull);
            bool pos_ok = nidx >= 0 && nidx < len;
            if (!pos_ok) {
                ctx.label("splice:refused-position");
                VT_CHECK(ctx, r == 0, "mismatch", "out-of-range-accepted; splice(idx=" << idx << ",cnt=" << cnt << ") on len " << len << " returned TRUE");
                require_unchanged(cur, before, "splice");
                return;
            }
            if (cnt < 0) {
                // carve-out: negative counts are normalised by the code in its own way; the statement only
                // fixes refusals.  Accept either outcome, require unchanged-on-FALSE, adopt the value on TRUE.
                ctx.label("safety_only:splice-negative-count");
                if (r == 0) { require_unchanged(cur, before, "splice"); return; }
                adopt(cur);
                mutations++;
                return;
            }
            if (cnt > len - nidx) {
                ctx.label("splice:refused-count");
                VT_CHECK(ctx, r == 0, "mismatch", "out-of-range-accepted; splice(idx=" << idx << ",cnt=" << cnt << ") on len " << len << " returned TRUE");
                require_unchanged(cur, before, "splice");
                return;
            }
            VT_CHECK(ctx, r == 1, "mismatch", "in-range-refused; splice(idx=" << idx << ",cnt=" << cnt << ") on len " << len << " returned FALSE");
            mo.text = mo.text.substr(0, (size_t)nidx) + repl + mo.text.substr((size_t)(nidx + cnt));
            mutations++;
            if (cnt == len - nidx) ctx.label("splice:cnt=rest");
            if (repl.empty()) ctx.label("splice:delete-only");
            return;
        }
        if (n == "trim") {
            int r = c01_trim(cur);
            size_t a = 0, b = mo.text.size();
            auto sp = [](unsigned char ch) { return ch == ' ' || (ch >= 9 && ch <= 13); };
            while (a < b && sp((unsigned char)mo.text[a])) a++;
            while (b > a && sp((unsigned char)mo.text[b - 1])) b--;
            bool allblank = (a == b) && !mo.text.empty();
            if (mo.text.empty()) ctx.label("trim:empty"); else VT_CHECK(ctx, r == 1, "mismatch", "return; trim returned FALSE");
            if (allblank) { ctx.label("trim:all-blank"); interesting = true; }
            mo.text = mo.text.substr(a, b - a);
            mutations++;
            return;
        }
        if (n == "reverse" || n == "upcase" || n == "downcase") {
            int r = n == "reverse" ? c01_reverse(cur) : n == "upcase" ? c01_upcase(cur) : c01_downcase(cur);
            if (mo.text.empty()) ctx.label(n + ":empty"); else VT_CHECK(ctx, r == 1, "mismatch", "return; " << n << " returned FALSE");
            if (n == "reverse") std::reverse(mo.text.begin(), mo.text.end());
            else for (auto &ch : mo.text) { unsigned char u = (unsigned char)ch; if (u < 128) ch = (char)(n == "upcase" ? toupper(u) : tolower(u)); }
            mutations++;
            return;
        }
        if (n == "clear") {
            int ch = (int)(op.i(0) & 0xff);
            if (ch == 0) ch = '#';
            int r = c01_clear(cur, ch);
            if (mo.text.empty()) ctx.label("clear:empty"); else VT_CHECK(ctx, r == 1, "mismatch", "return; clear returned FALSE");
            for (auto &c2 : mo.text) c2 = (char)ch;
            mutations++;
            return;
        }
        if (n == "sprintf") {
            int kind = (int)(((op.i(0) % 6) + 6) % 6);
            std::string t = expand(op.s(0), op.i(3, 1));
            if (kind == 4) { for (auto &ch : t) if (ch == '%') ch = 'p'; }
            long num = op.i(1);
            double d = (double)op.i(2) / 7.0;
            char buf[128];
            std::string want;
            switch (kind) {
            case 0: want = ""; break;
            case 1: want = t; break;
            case 2: snprintf(buf, sizeof buf, "%d", (int)num); want = buf; break;
            case 3: snprintf(buf, sizeof buf, "%5.2f", d); want = buf; break;
            case 4: want = t; break;
            default: snprintf(buf, sizeof buf, "|%ld>", num); want = "<" + t + buf; break;
            }
            int r = c01_sprintf(cur, kind, t.data(), (long)t.size(), num, d);
            ctx.label("sprintf:kind" + std::to_string(kind));
            // the return value for an empty result is not constrained (carve-out); a non-empty result => TRUE
            if (!want.empty()) VT_CHECK(ctx, r == 1, "mismatch", "return; sprintf returned FALSE for a non-empty result");
            else ctx.label("sprintf:empty-result");
            mo.text = want;
            mutations++;
            return;
        }
        if (n == "done") {
            int r = c01_done(cur);
            VT_CHECK(ctx, r == 1, "mismatch", "return; done returned FALSE");
            mo.text.clear();
            const char *s; long l, sz, al;
            c01_state(cur, &s, &l, &sz, &al);
            VT_CHECK(ctx, s == nullptr && l == 0 && sz == 0, "invariant", "done-left-state; after done(): s=" << (void *)s << " len=" << l << " size=" << sz);
            ctx.label("done");
            mutations++;
            return;
        }
        if (n.rfind("re", 0) == 0 && is_ctor(n.substr(2))) {   // renew_ptr etc: done() then init_from_*
            c01_done(cur);
            Op c2 = op; c2.name = n.substr(2);
            construct(c2, cur, true);
            mutations++;
            interesting = true;
            return;
        }
        if (n == "dup") {
            int dst = (cur == SUBJ) ? DUPS : SUBJ;   // the copy replaces whichever of the two is not current
            if (m[dst].exists) { c01_del(dst); m[dst].exists = false; }
            int r = op.i(0) & 1 ? c01_obj_dup(cur, dst) : c01_dup(cur, dst);
            VT_CHECK(ctx, r == 1, "mismatch", "return; dup returned NULL");
            m[dst].exists = true;
            m[dst].text = mo.text;
            ctx.label("dup");
            if (mo.text.empty()) ctx.label("dup:empty");
            return;
        }
        if (n == "swap") {   // continue on the copy / on the original
            if (m[DUPS].exists && m[SUBJ].exists) { cur = (cur == SUBJ) ? DUPS : SUBJ; ctx.label("op-on-dup"); interesting = true; }
            return;
        }
        // ---------------- queries
        if (n == "index" || n == "rindex") {
            int ch = (int)(op.i(0) & 0xff);
            if (ch == 0) ch = '?';
            long r = n == "index" ? c01_index(cur, ch) : c01_rindex(cur, ch);
            size_t p = n == "index" ? mo.text.find((char)ch) : mo.text.rfind((char)ch);
            long want = p == std::string::npos ? len : (long)p;
            if (p == std::string::npos) ctx.label("notfound:" + n);
            VT_CHECK(ctx, r == want, "mismatch", n << "; " << n << "(0x" << std::hex << ch << std::dec << ") returned " << r << " expected " << want << " (len " << len << ")");
            return;
        }
        if (n == "find" || n == "find_ptr") {
            std::string needle;
            long r;
            if (n == "find") {
                int o = other_slot(op.i(0));
                if (o < 0) { r = c01_find(cur, -1); VT_CHECK(ctx, r == -1, "mismatch", "find; find(NULL) returned " << r << " expected -1"); return; }
                needle = m[o].text;
                r = c01_find(cur, o);
            } else {
                // needle: a slice of the current text (so that hits are common) or fresh text
                if (op.i(0) == 0 && len > 0) { long a = ((op.i(1) % len) + len) % len; long l2 = 1 + ((op.i(2) % 5) + 5) % 5; needle = mo.text.substr((size_t)a, (size_t)l2); }
                else needle = expand(op.s(0), 1);
                r = c01_find_ptr(cur, needle.data(), (long)needle.size(), 0);
            }
            size_t p = mo.text.find(needle);
            long want = p == std::string::npos ? len : (long)p;
            if (p == std::string::npos) ctx.label("notfound:find"); else ctx.label("found:find");
            VT_CHECK(ctx, r == want, "mismatch", n << "; find(\"" << printable(needle, 30) << "\") returned " << r << " expected " << want << " (len " << len << ")");
            return;
        }
        if (n == "substr" || n == "substr_ptr") {
            long icls = op.i(0), iraw = op.i(1), ccls = op.i(2), craw = op.i(3);
            long idx = resolve_pos(icls, iraw, len);
            long nidx = idx < 0 ? idx + len : idx;
            long cnt = resolve_cnt(ccls, craw, len - nidx);
            pos_label("substr", icls);
            bool ok = nidx >= 0 && nidx < len;
            long ncnt = cnt;
            if (ok) { if (ncnt <= 0) ncnt = len - nidx + ncnt; if (ncnt < 0) ok = false; }
            if (ok && ncnt > len - nidx) ncnt = len - nidx;
            Snap before = snap(cur);
            if (n == "substr") {
                if (m[SUB].exists) { c01_del(SUB); m[SUB].exists = false; }
                int r = c01_substr(cur, idx, cnt, SUB);
                if (!ok) { ctx.label("substr:refused"); VT_CHECK(ctx, r == 0, "mismatch", "out-of-range-accepted; substr(idx=" << idx << ",cnt=" << cnt << ") on len " << len << " returned an object"); if (r) c01_del(SUB); }
                else {
                    VT_CHECK(ctx, r == 1, "mismatch", "in-range-refused; substr(idx=" << idx << ",cnt=" << cnt << ") on len " << len << " returned NULL");
                    m[SUB].exists = true;
                    m[SUB].text = mo.text.substr((size_t)nidx, (size_t)ncnt);
                }
            } else {
                long alloc = 0;
                char *p = c01_substr_to_ptr(cur, idx, cnt, &alloc);
                if (!ok) { ctx.label("substr:refused"); VT_CHECK(ctx, p == nullptr, "mismatch", "out-of-range-accepted; substr_to_ptr(idx=" << idx << ",cnt=" << cnt << ") on len " << len << " returned a string"); }
                else {
                    VT_CHECK(ctx, p != nullptr, "mismatch", "in-range-refused; substr_to_ptr(idx=" << idx << ",cnt=" << cnt << ") on len " << len << " returned NULL");
                    std::string want = mo.text.substr((size_t)nidx, (size_t)ncnt);
                    VT_CHECK(ctx, alloc > (long)want.size(), "invariant", "substr_to_ptr-allocation; " << alloc << " bytes for " << want.size() << " chars");
                    VT_CHECK(ctx, std::string(p, strnlen(p, (size_t)alloc)) == want, "mismatch", "substr_to_ptr; got \"" << printable(std::string(p, strnlen(p, (size_t)alloc))) << "\" expected \"" << printable(want) << "\"");
                }
                c01_free(p);
            }
            require_unchanged(cur, before, "substr");
            return;
        }
        if (n == "cmp" || n == "cmp_ptr") {
            int kind = (int)(((op.i(0) % 5) + 5) % 5);
            long ncls = op.i(1);
            std::string other;
            bool isnull = false;
            int o = -1;
            if (n == "cmp") { o = other_slot(op.i(2)); if (o < 0) isnull = true; else other = m[o].text; }
            else {
                if (kind == 4) kind = 0;
                switch (op.i(2) % 5) {
                case 0: other = mo.text; break;                                     // equal
                case 1: other = mo.text.substr(0, mo.text.size() / 2); break;       // proper prefix
                case 2: other = mo.text + expand(op.s(0), 1); break;                // extension
                case 3: other = mo.text; for (auto &ch : other) { unsigned char u = (unsigned char)ch; if (u < 128) ch = (char)(isupper(u) ? tolower(u) : toupper(u)); } break;  // case-flipped
                default: other = expand(op.s(0), 1); break;
                }
                if (op.i(3) == 1) isnull = true;
            }
            long nn = 0;
            if (kind == 2 || kind == 3) {
                long base = (long)std::min(mo.text.size(), other.size());
                switch (((ncls % 6) + 6) % 6) { case 0: nn = 0; break; case 1: nn = 1; break; case 2: nn = base; break; case 3: nn = base + 1; break; case 4: nn = base + 50; break; default: nn = base / 2; }
            }
            int r = (n == "cmp") ? c01_cmp(kind, cur, o, nn) : c01_cmp_ptr(kind, cur, other.data(), (long)other.size(), isnull, nn);
            int want;
            if (isnull) { want = 1; ctx.label("cmp:null-other"); }
            else switch (kind) {
                case 0: case 4: want = sgn(strcmp(mo.text.c_str(), other.c_str())); break;
                case 1: want = sgn(strcasecmp(mo.text.c_str(), other.c_str())); break;
                case 2: want = sgn(strncmp(mo.text.c_str(), other.c_str(), (size_t)nn)); break;
                default: want = sgn(strncasecmp(mo.text.c_str(), other.c_str(), (size_t)nn)); break;
            }
            ctx.label("cmp:kind" + std::to_string(kind));
            VT_CHECK(ctx, r == want, "mismatch", "cmp; kind " << kind << " n=" << nn << " \"" << printable(mo.text, 30) << "\" vs \"" << printable(other, 30) << "\" returned " << r << " expected " << want);
            return;
        }
        if (n == "to_num") {
            static const int bases[] = {0, 2, 8, 10, 16, 36};
            int base = bases[((op.i(0) % 6) + 6) % 6];
            unsigned long r = c01_to_num(cur, base);
            unsigned long want = strtoul(mo.text.c_str(), nullptr, base);
            VT_CHECK(ctx, r == want, "mismatch", "to_num; base " << base << " of \"" << printable(mo.text, 30) << "\" returned " << r << " expected " << want);
            return;
        }
        if (n == "to_float") {
            double r = c01_to_float(cur), want = strtod(mo.text.c_str(), nullptr);
            VT_CHECK(ctx, (std::isnan(r) && std::isnan(want)) || r == want, "mismatch", "to_float; of \"" << printable(mo.text, 30) << "\" returned " << r << " expected " << want);
            return;
        }
        if (n == "show") {
            long r = c01_show(cur);
            VT_CHECK(ctx, r > 0, "mismatch", "show; show() returned no description");
            return;
        }
        if (n == "cls" || is_ctor(n)) return;  // stray leading ops after shrinking: ignore
        ctx.fail("harness", "unknown op " + n);
    }

    void adopt(int i) {  // take the object's value as the model's (carve-outs), still checking invariants
        const char *s; long len, size, alloc;
        c01_state(i, &s, &len, &size, &alloc);
        if (!s) { m[i].text.clear(); return; }
        VT_CHECK(ctx, len >= 0 && alloc > len, "invariant", "allocation-too-small; len=" << len << " alloc=" << alloc);
        m[i].text.assign(s, (size_t)len);
    }
};

// ------------------------------------------------------------------ generators
const std::string kAlpha = "abcXYZ019 \t\n_-.%";

rc::Gen<std::string> gen_unit() {
    return rc::gen::exec([]() {
        int k = (int)*range(0, 9);
        if (k == 0) return std::string();
        if (k <= 2) return std::string(1, *rc::gen::elementOf(kAlpha));
        if (k == 3) {   // high-bit bytes
            std::string s;
            long n = *range(1, 4);
            for (long i = 0; i < n; i++) s.push_back((char)*range(128, 255));
            return s;
        }
        if (k == 4) {   // blanks only
            std::string s;
            long n = *range(1, 4);
            for (long i = 0; i < n; i++) s.push_back(*rc::gen::elementOf(std::string(" \t\n")));
            return s;
        }
        if (k == 5) {   // numeric-looking
            static const char *nums[] = {"42", "-17", "0x1f", "3.25", "  12", "1e3", "077", "zz", "+5abc"};
            return std::string(*rc::gen::elementOf(std::vector<std::string>(nums, nums + 9)));
        }
        std::string s;
        long n = *range(1, 12);
        for (long i = 0; i < n; i++) s.push_back(*rc::gen::elementOf(kAlpha));
        return s;
    });
}
rc::Gen<long> gen_rep() {
    return rc::gen::exec([]() -> long {
        int k = (int)*range(0, 19);
        if (k < 16) return 1;
        if (k < 18) return *range(2, 40);
        return *range(300, 5000);
    });
}
// stream text whose (first) line length lands around the 4096 chunk
rc::Gen<Op> gen_stream_ctor(const std::string &prefix) {
    return rc::gen::exec([=]() {
        bool fp = *range(0, 1) == 1;
        Op o;
        o.name = prefix + (fp ? "new_fp" : "new_fd");
        int k = (int)*range(0, 9);
        std::string unit(1, *rc::gen::elementOf(std::string("abcxyz01")));
        long rep;
        static const long L[] = {0, 1, 4093, 4094, 4095, 4096, 4097, 4098, 8190, 8191, 8192, 8193, 12293, 70000};
        if (k < 4) { unit = *gen_unit(); rep = *range(0, 6); }
        else rep = *rc::gen::elementOf(std::vector<long>(L, L + (fp ? 13 : 14)));
        std::string tail;
        int tk = (int)*range(0, 3);
        if (fp) { if (tk == 0) tail = ""; else if (tk == 1) tail = "\n"; else if (tk == 2) tail = "\nsecond line\n"; else tail = "\n" + *gen_unit() + "\nthird"; }
        else { if (tk == 0) tail = ""; else if (tk == 1) tail = "\n"; else tail = *gen_unit(); }
        if (!fp) { for (auto &ch : unit) if (ch == 0) ch = 'n'; }
        if (fp) { for (auto &ch : unit) if (ch == '\n') ch = ' '; }
        o.ints = {rep, *range(0, 1), fp ? *range(0, 2) : 0, *range(0, 2) == 0 ? *range(1, 4) : 0, *range(0, 3) == 0 ? *range(1, 2) : 0};
        o.strs = {unit, tail};
        return o;
    });
}
rc::Gen<Op> gen_ctor(const std::string &prefix) {
    return rc::gen::exec([=]() {
        int k = (int)*range(0, 11);
        Op o;
        if (k <= 3) { o.name = prefix + "new"; return o; }
        if (k <= 5) { o.name = prefix + "new_ptr"; o.strs = {*gen_unit()}; o.ints = {*gen_rep()}; return o; }
        if (k <= 7) { o.name = prefix + "new_buff"; o.strs = {*gen_unit()}; o.ints = {*gen_rep(), *range(0, 4), *range(0, 1000)}; return o; }
        if (k == 8) {
            o.name = prefix + "new_num";
            static const long N[] = {0, 1, -1, 42, 1234567890L, LONG_MAX, LONG_MIN, -99999};
            o.ints = {*rc::gen::elementOf(std::vector<long>(N, N + 8))};
            return o;
        }
        return *gen_stream_ctor(prefix);
    });
}
rc::Gen<long> gen_poscls() { return rc::gen::exec([]() -> long { return *range(0, 4) == 0 ? 11 : *range(0, 10); }); }

rc::Gen<Op> gen_op() {
    return rc::gen::exec([]() {
        int k = (int)*range(0, 99);
        Op o;
        if (k < 6) { o.name = "helper"; o.ints = {*range(0, 2), *range(0, 4) == 0 ? 1 : 0, *gen_rep()}; o.strs = {*gen_unit()}; return o; }
        if (k < 11) { o.name = *range(0, 1) ? "append" : "prepend"; o.ints = {*range(0, 6) == 6 ? 6 : *range(0, 2)}; return o; }
        if (k < 21) { o.name = *range(0, 1) ? "append_ptr" : "prepend_ptr"; o.ints = {*gen_rep(), *range(0, 14) == 0 ? 1 : 0}; o.strs = {*gen_unit()}; return o; }
        if (k < 29) { o.name = *range(0, 1) ? "append_char" : "prepend_char"; o.ints = {(long)(unsigned char)*rc::gen::elementOf(kAlpha + "\xe9\xff")}; return o; }
        if (k < 41) {
            bool ptr = *range(0, 1) == 1;
            o.name = ptr ? "splice_ptr" : "splice";
            o.ints = {*gen_poscls(), *range(-20, 20), *gen_poscls(), *range(-20, 20), ptr ? (*range(0, 9) == 0 ? 1 : 0) : (*range(0, 7) == 7 ? 6 : *range(0, 2)), *gen_rep()};
            if (ptr) o.strs = {*gen_unit()};
            return o;
        }
        if (k < 45) { o.name = "trim"; return o; }
        if (k < 48) { o.name = "reverse"; return o; }
        if (k < 50) { o.name = "upcase"; return o; }
        if (k < 52) { o.name = "downcase"; return o; }
        if (k < 55) { o.name = "clear"; o.ints = {(long)*rc::gen::elementOf(std::string("x #\xfe"))}; return o; }
        if (k < 59) { o.name = "sprintf"; o.ints = {*range(0, 5), *range(-100000, 100000), *range(-5000, 5000), *gen_rep()}; o.strs = {*gen_unit()}; return o; }
        if (k < 60) { o.name = "done"; return o; }
        if (k < 62) { return *gen_ctor("re"); }
        if (k < 66) { o.name = *range(0, 1) ? "append_ptr" : "prepend_ptr"; o.ints = {*gen_rep(), 0}; o.strs = {*gen_unit()}; return o; }
        if (k < 69) { o.name = "dup"; o.ints = {*range(0, 1)}; return o; }
        if (k < 72) { o.name = "swap"; return o; }
        if (k < 77) { o.name = *range(0, 1) ? "index" : "rindex"; o.ints = {(long)(unsigned char)*rc::gen::elementOf(kAlpha + "q\xe9")}; return o; }
        if (k < 82) {
            bool ptr = *range(0, 2) != 0;
            o.name = ptr ? "find_ptr" : "find";
            if (ptr) { o.ints = {*range(0, 1), *range(0, 1000), *range(0, 4)}; o.strs = {*gen_unit()}; } else o.ints = {*range(0, 2)};
            return o;
        }
        if (k < 91) { o.name = *range(0, 1) ? "substr" : "substr_ptr"; o.ints = {*gen_poscls(), *range(-20, 20), *gen_poscls(), *range(-20, 20)}; return o; }
        if (k < 96) {
            bool ptr = *range(0, 1) == 1;
            o.name = ptr ? "cmp_ptr" : "cmp";
            o.ints = {*range(0, 4), *range(0, 5), ptr ? *range(0, 4) : *range(0, 2), ptr ? (*range(0, 14) == 0 ? 1 : 0) : 0};
            if (ptr) o.strs = {*gen_unit()};
            return o;
        }
        if (k < 98) { o.name = "to_num"; o.ints = {*range(0, 5)}; return o; }
        if (k < 99) { o.name = "to_float"; return o; }
        o.name = "show";
        return o;
    });
}

rc::Gen<Case> gen_case(int max_ops) {
    return rc::gen::exec([=]() {
        Case c;
        c.push_back(mk("cls", {*range(0, 1)}));
        c.push_back(*gen_ctor(""));
        long nh = *range(0, 3);   // helpers up front so that object-argument ops usually have a partner
        for (long h = 0; h < nh; h++) c.push_back(mk("helper", {h, *range(0, 5) == 0 ? 1 : 0, *gen_rep()}, {*gen_unit()}));
        auto ops = *rc::gen::container<std::vector<Op>>(gen_op());
        // size-scaled length comes from the container generator; cap
        if ((int)ops.size() > max_ops) ops.resize((size_t)max_ops);
        for (auto &o : ops) c.push_back(o);
        return c;
    });
}

struct C01 : Harness {
    const char *property() const override { return "C01"; }
    const char *rule() const override {
        return "case = class (str|ustr) + constructor + operation history (symbolic positions resolved against the model); "
               "non-trivial = >=3 mutating ops AND one of {growth from the empty state, a boundary position class "
               "(-len-1,-len,-1,len-1,len,len+1), stream text crossing the 4096 chunk, done+re-init, an op on a dup}; "
               "distinct = distinct case text (64-bit fingerprint)";
    }
    void run(const Case &c, Ctx &ctx) override { Interp in(ctx); in.run(c); }
    bool search(const std::string &, const std::function<bool(const Case &)> &try_case) override {
        int max_ops = config().tier ? 120 : 40;
        return rc_search("C01 str/ustr history vs std::string model", gen_case(max_ops), try_case);
    }
    std::vector<std::string> mandatory(const std::string &) const override {
        return {"class:str", "class:ustr", "ctor:new", "ctor:ptr", "ctor:buff", "ctor:num", "ctor:fp", "ctor:fd",
                "first-growth-on-empty:append_ptr", "first-growth-on-empty:append_char", "first-growth-on-empty:prepend_char",
                "splice:idx=-len-1", "splice:idx=-len", "splice:idx=-1", "splice:idx=len-1", "splice:idx=len", "splice:idx=len+1",
                "substr:idx=-len-1", "substr:idx=-len", "substr:idx=-1", "substr:idx=len-1", "substr:idx=len", "substr:idx=len+1",
                "stream>4096:fp", "stream>4096:fd", "notfound:index", "notfound:rindex", "notfound:find", "reinit-after-done", "op-on-dup"};
    }
};

}  // namespace

vt::Harness *vt::make_harness() { return new C01(); }
