/* C01 shim: thin C access to spif_str_* / spif_ustr_*.  Every text handed to libast is an
 * exact-size heap block so that the byte after the terminator is an ASan redzone. */
#include "config.h"
#include <libast.h>
extern unsigned int vt_base_level;   /* engine/tracker_shim.c */
#include <sanitizer/asan_interface.h>
#include <sanitizer/allocator_interface.h>

#define NSLOT 8
static void *slot[NSLOT];
static int g_cls; /* 0 = str, 1 = ustr */

/* both classes share the layout {obj; s; size; len} and identical signatures */
#define STR_(o) ((spif_str_t)(o))
#define USTR_(o) ((spif_ustr_t)(o))
#define CALL(fn, ...) (g_cls ? spif_ustr_##fn(__VA_ARGS__) : spif_str_##fn(__VA_ARGS__))
#define O(i) (g_cls ? (void *) USTR_(slot[i]) : (void *) STR_(slot[i]))

static char *exact_cstr(const char *t, long n)
{
    char *p = (char *) malloc((size_t) n + 1);
    memcpy(p, t, (size_t) n);
    p[n] = 0;
    return p;
}
static char *exact_bytes(const char *t, long n)
{
    char *p = (char *) malloc(n > 0 ? (size_t) n : 1);
    if (n > 0) memcpy(p, t, (size_t) n);
    return p;
}

void c01_init(int cls) { g_cls = cls; memset(slot, 0, sizeof(slot)); libast_debug_level = vt_base_level; }
int c01_exists(int i) { return slot[i] != NULL; }

/* ---- constructors (fresh object) and re-initialisers (existing, done object) */
int c01_new(int i) { slot[i] = g_cls ? (void *) spif_ustr_new() : (void *) spif_str_new(); return slot[i] != NULL; }
int c01_new_from_ptr(int i, const char *t, long n, int reinit)
{
    char *p = exact_cstr(t, n);
    int r;
    if (reinit) r = g_cls ? spif_ustr_init_from_ptr(slot[i], p) : spif_str_init_from_ptr(slot[i], p);
    else { slot[i] = g_cls ? (void *) spif_ustr_new_from_ptr(p) : (void *) spif_str_new_from_ptr(p); r = slot[i] != NULL; }
    free(p);
    return r;
}
int c01_new_from_buff(int i, const char *t, long n, long size, int nullbuf, int reinit)
{
    /* the constructor reads min(size, strlen+1) bytes: hand it exactly that many */
    char *p = NULL;
    int r;
    if (!nullbuf) p = (size <= n) ? exact_bytes(t, size) : exact_cstr(t, n);
    if (reinit) r = g_cls ? spif_ustr_init_from_buff(slot[i], p, size) : spif_str_init_from_buff(slot[i], p, size);
    else { slot[i] = g_cls ? (void *) spif_ustr_new_from_buff(p, size) : (void *) spif_str_new_from_buff(p, size); r = slot[i] != NULL; }
    free(p);
    return r;
}
int c01_new_from_num(int i, long num, int reinit)
{
    if (reinit) return g_cls ? spif_ustr_init_from_num(slot[i], num) : spif_str_init_from_num(slot[i], num);
    slot[i] = g_cls ? (void *) spif_ustr_new_from_num(num) : (void *) spif_str_new_from_num(num);
    return slot[i] != NULL;
}

/* ---- harness-owned read(): the descriptor constructors must cope with short reads and EINTR (the kernel
 * may split a transfer any way it likes).  Linked with -Wl,--wrap=read; only the descriptor under test is affected. */
extern ssize_t __real_read(int, void *, size_t);
static int rd_fd = -1, rd_cap, rd_eintr;
ssize_t __wrap_read(int fd, void *buf, size_t n)
{
    if (fd == rd_fd) {
        if (rd_eintr > 0) { rd_eintr--; errno = EINTR; return -1; }
        if (rd_cap > 0 && n > (size_t) rd_cap) n = (size_t) rd_cap;
    }
    return __real_read(fd, buf, n);
}
void c01_read_schedule(int cap, int eintr) { rd_cap = cap; rd_eintr = eintr; }

/* make a readable descriptor holding exactly data[0..n): kind 0 = pipe (fed by a forked writer so
 * that any size works), kind 1 = unlinked regular file */
static int make_fd(const char *data, long n, int kind, const char *dir)
{
    if (kind == 0) {
        int p[2];
        if (pipe(p)) return -1;
        if (n <= 60000) {
            long w = 0;
            while (w < n) { ssize_t k = write(p[1], data + w, (size_t) (n - w)); if (k <= 0) break; w += k; }
            close(p[1]);
        } else {
            pid_t pid = fork();
            if (pid == 0) {
                long w = 0;
                close(p[0]);
                while (w < n) { ssize_t k = write(p[1], data + w, (size_t) (n - w)); if (k <= 0) break; w += k; }
                _exit(0);
            }
            close(p[1]);
        }
        return p[0];
    } else {
        char path[512];
        int fd;
        long w = 0;
        snprintf(path, sizeof(path), "%s/c01-XXXXXX", dir);
        fd = mkstemp(path);
        if (fd < 0) return -1;
        unlink(path);
        while (w < n) { ssize_t k = write(fd, data + w, (size_t) (n - w)); if (k <= 0) break; w += k; }
        lseek(fd, 0, SEEK_SET);
        return fd;
    }
}

/* read `skip` lines with the constructor and throw them away, then construct slot i from the next */
int c01_new_from_fp(int i, const char *data, long n, int kind, int skip, int reinit, const char *dir)
{
    int fd = make_fd(data, n, kind, dir), r;
    FILE *fp;
    if (fd < 0) return -1;
    fp = fdopen(fd, "r");
    while (skip-- > 0) {
        void *tmp = g_cls ? (void *) spif_ustr_new_from_fp(fp) : (void *) spif_str_new_from_fp(fp);
        if (tmp) { if (g_cls) spif_ustr_del(tmp); else spif_str_del(tmp); }
    }
    if (reinit) r = g_cls ? spif_ustr_init_from_fp(slot[i], fp) : spif_str_init_from_fp(slot[i], fp);
    else { slot[i] = g_cls ? (void *) spif_ustr_new_from_fp(fp) : (void *) spif_str_new_from_fp(fp); r = slot[i] != NULL; }
    fclose(fp);
    while (waitpid(-1, NULL, WNOHANG) > 0) {}
    return r;
}
int c01_new_from_fd(int i, const char *data, long n, int kind, int reinit, const char *dir)
{
    int fd = make_fd(data, n, kind, dir), r;
    if (fd < 0) return -1;
    rd_fd = fd;
    errno = 0;
    if (reinit) r = g_cls ? spif_ustr_init_from_fd(slot[i], fd) : spif_str_init_from_fd(slot[i], fd);
    else { slot[i] = g_cls ? (void *) spif_ustr_new_from_fd(fd) : (void *) spif_str_new_from_fd(fd); r = slot[i] != NULL; }
    rd_fd = -1;
    close(fd);
    while (waitpid(-1, NULL, WNOHANG) > 0) {}
    return r;
}

int c01_done(int i) { return CALL(done, slot[i]); }
int c01_del(int i) { int r = CALL(del, slot[i]); slot[i] = NULL; return r; }
int c01_dup(int i, int dst)
{
    slot[dst] = g_cls ? (void *) spif_ustr_dup(slot[i]) : (void *) spif_str_dup(slot[i]);
    return slot[dst] != NULL;
}
/* dup through the object protocol (class table) */
int c01_obj_dup(int i, int dst) { slot[dst] = (void *) SPIF_OBJ_DUP(SPIF_OBJ(slot[i])); return slot[dst] != NULL; }
/* type() identifies the class: by class handle (what the code returns today) or by class name */
int c01_type_ok(int i)
{
    const char *t = (const char *) (g_cls ? spif_ustr_type(slot[i]) : spif_str_type(slot[i]));
    spif_class_t cls = g_cls ? SPIF_CLASS_VAR(ustr) : SPIF_CLASS_VAR(str);
    if (!t) return 0;
    if ((const void *) t == (const void *) cls || (const void *) t == (const void *) cls->classname) return 1;
    return 0;
}

/* ---- mutators */
int c01_append(int i, int o) { return CALL(append, slot[i], o < 0 ? NULL : slot[o]); }
int c01_append_ptr(int i, const char *t, long n, int isnull)
{
    char *p = isnull ? NULL : exact_cstr(t, n);
    int r = CALL(append_from_ptr, slot[i], p);
    free(p);
    return r;
}
int c01_append_char(int i, int c) { return CALL(append_char, slot[i], (spif_char_t) c); }
int c01_prepend(int i, int o) { return CALL(prepend, slot[i], o < 0 ? NULL : slot[o]); }
int c01_prepend_ptr(int i, const char *t, long n, int isnull)
{
    char *p = isnull ? NULL : exact_cstr(t, n);
    int r = CALL(prepend_from_ptr, slot[i], p);
    free(p);
    return r;
}
int c01_prepend_char(int i, int c) { return CALL(prepend_char, slot[i], (spif_char_t) c); }
int c01_splice(int i, long idx, long cnt, int o) { return CALL(splice, slot[i], idx, cnt, o < 0 ? NULL : slot[o]); }
int c01_splice_ptr(int i, long idx, long cnt, const char *t, long n, int isnull)
{
    char *p = isnull ? NULL : exact_cstr(t, n);
    int r = CALL(splice_from_ptr, slot[i], idx, cnt, p);
    free(p);
    return r;
}
int c01_trim(int i) { return CALL(trim, slot[i]); }
int c01_reverse(int i) { return CALL(reverse, slot[i]); }
int c01_upcase(int i) { return CALL(upcase, slot[i]); }
int c01_downcase(int i) { return CALL(downcase, slot[i]); }
int c01_clear(int i, int c) { return CALL(clear, slot[i], (spif_char_t) c); }
/* sprintf menu: 0 "" ; 1 "%s" ; 2 "%d" ; 3 "%5.2f" ; 4 literal (no %) ; 5 "<%s|%ld>" */
int c01_sprintf(int i, int kind, const char *t, long n, long num, double d)
{
    char *p = exact_cstr(t, n);
    int r;
    switch (kind) {
    case 0: r = CALL(sprintf, slot[i], (spif_charptr_t) ""); break;
    case 1: r = CALL(sprintf, slot[i], (spif_charptr_t) "%s", p); break;
    case 2: r = CALL(sprintf, slot[i], (spif_charptr_t) "%d", (int) num); break;
    case 3: r = CALL(sprintf, slot[i], (spif_charptr_t) "%5.2f", d); break;
    case 4: r = CALL(sprintf, slot[i], (spif_charptr_t) p); break;
    default: r = CALL(sprintf, slot[i], (spif_charptr_t) "<%s|%ld>", p, num); break;
    }
    free(p);
    return r;
}

/* ---- queries */
long c01_index(int i, int c) { return (long) CALL(index, slot[i], (spif_char_t) c); }
long c01_rindex(int i, int c) { return (long) CALL(rindex, slot[i], (spif_char_t) c); }
long c01_find(int i, int o) { return (long) CALL(find, slot[i], o < 0 ? NULL : slot[o]); }
long c01_find_ptr(int i, const char *t, long n, int isnull)
{
    char *p = isnull ? NULL : exact_cstr(t, n);
    long r = (long) CALL(find_from_ptr, slot[i], p);
    free(p);
    return r;
}
int c01_substr(int i, long idx, long cnt, int dst)
{
    slot[dst] = g_cls ? (void *) spif_ustr_substr(slot[i], idx, cnt) : (void *) spif_str_substr(slot[i], idx, cnt);
    return slot[dst] != NULL;
}
/* returns malloc'd NUL-terminated copy or NULL; *alloc = real allocation size */
char *c01_substr_to_ptr(int i, long idx, long cnt, long *alloc)
{
    char *r = (char *) CALL(substr_to_ptr, slot[i], idx, cnt);
    *alloc = r ? (long) __sanitizer_get_allocated_size(r) : 0;
    return r;
}
void c01_free(void *p) { FREE(p); }   /* blocks handed out by libast: released the way user code does (tracking builds) */
/* kind: 0 cmp 1 casecmp 2 ncmp 3 ncasecmp 4 comp(obj protocol) */
int c01_cmp(int kind, int i, int o, long n)
{
    void *ob = o < 0 ? NULL : slot[o];
    switch (kind) {
    case 0: return (int) CALL(cmp, slot[i], ob);
    case 1: return (int) CALL(casecmp, slot[i], ob);
    case 2: return (int) CALL(ncmp, slot[i], ob, n);
    case 3: return (int) CALL(ncasecmp, slot[i], ob, n);
    default: return (int) CALL(comp, slot[i], ob);
    }
}
int c01_cmp_ptr(int kind, int i, const char *t, long tn, int isnull, long n)
{
    char *p = isnull ? NULL : exact_cstr(t, tn);
    int r;
    switch (kind) {
    case 0: r = (int) CALL(cmp_with_ptr, slot[i], p); break;
    case 1: r = (int) CALL(casecmp_with_ptr, slot[i], p); break;
    case 2: r = (int) CALL(ncmp_with_ptr, slot[i], p, n); break;
    default: r = (int) CALL(ncasecmp_with_ptr, slot[i], p, n); break;
    }
    free(p);
    return r;
}
unsigned long c01_to_num(int i, int base) { return (unsigned long) CALL(to_num, slot[i], base); }
double c01_to_float(int i) { return CALL(to_float, slot[i]); }
long c01_get_len(int i) { return (long) CALL(get_len, slot[i]); }
long c01_get_size(int i) { return (long) CALL(get_size, slot[i]); }
/* show: returns length of the produced description (-1 if NULL) and checks it mentions the text */
long c01_show(int i)
{
    spif_str_t b = g_cls ? spif_ustr_show(slot[i], (spif_charptr_t) "x", (spif_str_t) NULL, 2)
                         : spif_str_show(slot[i], (spif_charptr_t) "x", (spif_str_t) NULL, 2);
    long r = -1;
    if (b) { r = (long) spif_str_get_len(b); spif_str_del(b); }
    return r;
}

/* raw state: pointer to the text, len, size, real allocation size (0 when s == NULL) */
void c01_state(int i, const char **s, long *len, long *size, long *alloc)
{
    spif_str_t o = STR_(slot[i]); /* identical layout for ustr */
    if (g_cls) { spif_ustr_t u = USTR_(slot[i]); *s = (const char *) u->s; *len = (long) u->len; *size = (long) u->size; }
    else { *s = (const char *) o->s; *len = (long) o->len; *size = (long) o->size; }
    *alloc = *s ? (long) __sanitizer_get_allocated_size(*s) : 0;
}
/* is [p, p+n) fully addressable? */
int c01_addressable(const void *p, long n) { return __asan_region_is_poisoned((void *) p, (size_t) n) == NULL; }
