/* C11 shim: config subsystem robustness - arbitrary files, file lookup, temp files, init/use/free cycles. */
#include "config.h"
#include <libast.h>
#include "confshim.inc"

static char c11_out[PATH_MAX * 2];

/* spifconf_find_file on exact-size heap strings; returns the result ("" = NULL) */
const char *c11_find_file(const char *file, const char *dir, int dir_null, const char *pathlist, int path_null)
{
    char *f = strdup(file), *d = dir_null ? NULL : strdup(dir), *p = path_null ? NULL : strdup(pathlist);
    spif_charptr_t r = spifconf_find_file((spif_charptr_t) f, (spif_charptr_t) d, (spif_charptr_t) p);
    if (r) snprintf(c11_out, sizeof(c11_out), "%s", (char *) r); else c11_out[0] = 0;
    free(f); free(d); free(p);
    return r ? c11_out : NULL;
}
/* spiftool_temp_file: template (NUL-terminated, shorter than len) in an exact-size buffer of len bytes.
 * Returns fd or -1; *name_out receives the buffer afterwards. */
int c11_temp_file(const char *tmpl, long len, char *name_out)
{
    char *b = (char *) malloc((size_t) len);
    int fd;
    size_t n = strlen(tmpl);
    if ((long) n >= len) n = (size_t) len - 1;
    memcpy(b, tmpl, n);
    b[n] = 0;
    fd = spiftool_temp_file((spif_charptr_t) b, (size_t) len);
    memcpy(name_out, b, (size_t) len);
    name_out[len] = 0;
    free(b);
    return fd;
}
/* expand in a CONFIG_BUFF buffer; result copied out ("" on NULL) */
const char *c11_expand(const char *in)
{
    static char res[CONFIG_BUFF];
    char *b = (char *) malloc(CONFIG_BUFF);
    spif_charptr_t r;
    snprintf(b, CONFIG_BUFF, "%s", in);
    r = spifconf_shell_expand((spif_charptr_t) b);
    if (r) snprintf(res, sizeof(res), "%s", (char *) r); else res[0] = 0;
    free(b);
    return res;
}
