// C11 - the config subsystem is memory-safe and spawns nothing on arbitrary files and paths;
// temp files are unique and 0600; init/use/free cycles leave nothing behind.
#include "../../engine/rcglue.hpp"
#include "../../engine/latrack.hpp"
#include <fstream>
#include <climits>
#include <fcntl.h>
#include <dirent.h>
#include <strings.h>
#include <string.h>
#include <sys/stat.h>
#include <sys/resource.h>
#include <unistd.h>

extern "C" {
int cf_names(const char *, const char *); int cf_init(void); int cf_free(void); void cf_reset_log(void); int cf_register(const char *, int); int cf_register_builtin(const char *);
int cf_parse(const char *, const char *, const char *); int cf_log_count(void); unsigned cf_stack(int); unsigned cf_fstate_idx(void); int cf_fd_census(void);
int cf_spawn_count(void); const char *cf_last_command(void);
const char *c11_find_file(const char *, const char *, int, const char *, int); int c11_temp_file(const char *, long, char *); const char *c11_expand(const char *);
}
using namespace vt;
namespace {
const char *kMagic = "<vtapp-1.2.3>\n";

struct Interp {
    Ctx &ctx;
    std::string dir;
    explicit Interp(Ctx &c) : ctx(c) {}
    void enter() {
        dir = config().scratch_dir + "/c11-" + std::to_string(getpid());
        mkdir(dir.c_str(), 0700);
        VT_CHECK(ctx, chdir(dir.c_str()) == 0, "harness", "chdir failed");
        setenv("VT_LONG", std::string(700, 'L').c_str(), 1);   // a value much longer than any line that mentions it
    }
    // the case's own directory is removed again (best effort, two levels deep): a thorough run makes hundreds of thousands of them
    static void rmtree2(const std::string &d, int depth) {
        if (DIR *dp = opendir(d.c_str())) {
            while (dirent *e = readdir(dp)) {
                std::string n = e->d_name;
                if (n == "." || n == "..") continue;
                std::string p2 = d + "/" + n;
                if (unlink(p2.c_str()) != 0 && depth < 3) rmtree2(p2, depth + 1);
            }
            closedir(dp);
        }
        rmdir(d.c_str());
    }
    void done_ok() { if (chdir("/") == 0 && !dir.empty()) rmtree2(dir, 0); ctx.ok(); }
    static std::string expand(const std::string &unit, long rep) { std::string s; if (rep < 0) rep = 0; s.reserve(unit.size() * (size_t)rep); for (long i = 0; i < rep; i++) s += unit; return s; }

    // ---------------------------------------------------------------- (1) arbitrary file bytes
    void run_file(const Case &c) {
        enter();
        ht_install();
        { struct rlimit rl = {32, 32}; setrlimit(RLIMIT_NOFILE, &rl); }   // a self-including file recurses until descriptors run out: keep that short
        { static char ebuf[1 << 16]; setvbuf(stderr, ebuf, _IOFBF, sizeof ebuf); }   // thousands of diagnostics: do not pay a syscall for each
        cf_names("vtapp", "1.2.3");
        LA(cf_init());
        std::string body;
        bool magic = true, self_include = false;
        long nctx = 0, nbi = 0;
        for (auto &op : c) {
            if (op.name == "cfg") { magic = op.i(0) != 0; nctx = op.i(1); nbi = op.i(2); }
            if (op.name == "ln") { std::string l = expand(op.s(0), op.i(0, 1)); if (op.strs.size() > 1) body += op.s(1); body += l; if (op.i(1, 1)) body += "\n"; }   // optional prefix, then the unit `count` times
            if (op.name == "selfinc") { body += "%include f.cfg\n"; self_include = true; }
            if (op.name == "ftmp") {   // where temporary files go while this file is parsed: nowhere (creation fails), or a long path
                if (op.i(0) == 1) { setenv("TMPDIR", "/nonexistent-dir/x", 1); ctx.label("tmpdir:unusable"); }
                else if (op.i(0) == 2) { std::string t = dir + "/" + std::string(180, 't'); mkdir(t.c_str(), 0700); setenv("TMPDIR", t.c_str(), 1); ctx.label("tmpdir:long-path"); }
            }
        }
        // a file that includes itself more than once makes the parser do 2^(descriptor limit) work (no cycle
        // detection): finite but out of reach, so only the first self-include is kept
        { const char *pat = "%include f.cfg"; size_t first = std::string::npos, pos = 0, pl = strlen(pat);
          for (;;) { size_t hit = std::string::npos; for (size_t i = pos; i + pl <= body.size(); i++) if (!strncasecmp(body.data() + i, pat, pl)) { hit = i; break; }
                     if (hit == std::string::npos) break; if (first == std::string::npos) first = hit; else body.replace(hit + 9, 5, "nosuc"); pos = hit + pl; }
          if (first != std::string::npos) { self_include = true; ctx.label("self-include"); }
          // an %include whose argument is COMPUTED (%dirscan(.) lists f.cfg itself; a $VAR, a backquote or ~ could name it) is a
          // self-include in disguise: more than one self-include of either kind brings the 2^n blow-up back, so only the first
          // self-include-capable line of the file is kept
          {
              bool have = first != std::string::npos;
              for (size_t i = 0; i + 8 <= body.size(); i++) {
                  if (strncasecmp(body.data() + i, "%include", 8) != 0 || i == first) continue;
                  size_t e = body.find('\n', i);
                  std::string arg = body.substr(i + 8, (e == std::string::npos ? body.size() : e) - i - 8);
                  if (arg.find('%') != std::string::npos || arg.find('$') != std::string::npos || arg.find('`') != std::string::npos || arg.find('~') != std::string::npos) {
                      if (!have) { have = true; self_include = true; ctx.label("computed-include"); continue; }
                      body.replace(i, 8, "%incl_de"); ctx.label("computed-include-neutralised-next-to-a-self-include");
                  }
              }
          } }
        // context and built-in ids are unsigned char by the API: at most 250 / 240 per cycle (false alarms 19 and 24 in DESIGN 8.1)
        for (long i = 0; i < nctx && i < 250; i++) { std::string n = "ctx" + std::to_string(i); LA(cf_register(n.c_str(), i < 31 ? (int)i : 99)); }
        for (long i = 0; i < nbi && i < 240; i++) { std::string n = "bi" + std::to_string(i); LA(cf_register_builtin(n.c_str())); }
        if (nctx > 160) ctx.label(">160-registered-contexts");
        if (nbi >= 10) ctx.label(">=10-extra-built-ins");
        { std::ofstream o(dir + "/f.cfg", std::ios::binary); if (magic) o << kMagic; o << body; }
        // classes
        { size_t pos = 0, longest = 0; bool nul = body.find('\0') != std::string::npos; long begins = 0;
          while (pos <= body.size()) { size_t nl = body.find('\n', pos); size_t e = nl == std::string::npos ? body.size() : nl; longest = std::max(longest, e - pos); if (body.compare(pos, 6, "begin ") == 0) begins++; if (nl == std::string::npos) break; pos = nl + 1; }
          if (longest >= 20480) ctx.label("line>=20480"); else if (longest >= 20470) ctx.label("line-just-under-the-limit");
          if (nul) ctx.label("NUL-byte-in-a-line");
          if (!body.empty() && body.back() != '\n') ctx.label("no-trailing-newline");
          if (begins > 160) ctx.label(">160-unmatched-begins");
          if (begins > 255) ctx.label(">255-unmatched-begins");
          if (body.empty()) ctx.label("empty-body"); }
        if (!magic) ctx.label("no-magic-line");
        int fds0 = cf_fd_census();
        int ok = LA(cf_parse("f.cfg", nullptr, nullptr));
        (void)ok;
        int fds1 = cf_fd_census();
        if (!self_include) VT_CHECK(ctx, fds1 == fds0, "mismatch", "files-left-open; " << fds1 - fds0 << " descriptor(s) still open after parsing");
        bool may_spawn = body.find('`') != std::string::npos || strcasestr_bin(body, "%exec") || strcasestr_bin(body, "%preproc");
        if (!may_spawn) VT_CHECK(ctx, cf_spawn_count() == 0, "mismatch", "spawn; a process was spawned (\"" << printable(cf_last_command(), 60) << "\") although the text has no backquote, %exec or %preproc");
        else ctx.label("text-may-spawn");
        if (cf_log_count() > 0 || cf_stack(0) > 0) ctx.nontrivial();
        cf_reset_log();
        // freeing releases everything the subsystem allocated, whatever the file contained
        LA(cf_free());
        if (!self_include && !ht_overflowed() && ht_live_count() != 0) {
            char b[200];
            ht_describe(b, sizeof b);
            ctx.fail("leak", std::string("heap-not-balanced; blocks allocated while parsing are still live after spifconf_free_subsystem(): ") + b);
        }
        done_ok();
    }
    static bool strcasestr_bin(const std::string &h, const char *n) { size_t l = strlen(n); for (size_t i = 0; i + l <= h.size(); i++) if (!strncasecmp(h.data() + i, n, l)) return true; return false; }

    // ---------------------------------------------------------------- (2) lookup
    void run_lookup(const Case &c) {
        enter();
        cf_names("vtapp", "1.2.3");
        // a small tree
        mkdir("d1", 0700); mkdir("d2", 0700); mkdir("d2/sub", 0700); mkdir("dirfile", 0700); mkdir("d1/dirfile", 0700);
        for (const char *f : {"top.cfg", "d1/a.cfg", "d2/a.cfg", "d2/b.cfg", "d2/sub/a.cfg", "d2/dirfile"}) { std::ofstream o(f); o << "x\n"; }
        for (auto &op : c) {
            if (op.name != "find") continue;
            auto comp = [&](size_t k) { return expand(op.s(k), op.i(k, 1)); };
            std::string file = comp(0), dirarg = comp(1), path;
            bool dnull = op.i(10) == 1, pnull = op.i(11) == 1;
            for (size_t k = 2; k < op.strs.size(); k++) { if (k > 2) path += ":"; path += comp(k); }
            const char *r = LA(c11_find_file(file.c_str(), dirarg.c_str(), dnull, path.c_str(), pnull));
            // reference: the documented search order
            std::string name = dnull ? file : dirarg + "/" + file, want;
            auto hit = [](const std::string &p) { struct stat st; return p.size() < PATH_MAX && !access(p.c_str(), R_OK) && !stat(p.c_str(), &st) && !S_ISDIR(st.st_mode); };
            long len = (long)file.size() + (dnull ? 0 : (long)dirarg.size()) + 2;
            bool too_big = len > PATH_MAX;
            if (!too_big) {
                if (hit(name)) want = name;
                else if (!pnull) {
                    long maxpath = PATH_MAX - (long)name.size() - 2;
                    size_t pos = 0;
                    while (maxpath > 0 && pos <= path.size() && want.empty()) {
                        size_t colon = path.find(':', pos);
                        std::string compn = path.substr(pos, colon == std::string::npos ? std::string::npos : colon - pos);
                        if (!compn.empty() && (long)compn.size() <= maxpath) { std::string full = compn + (compn.back() == '/' ? "" : "/") + name; if (hit(full)) want = full; }
                        if (colon == std::string::npos) break;
                        pos = colon + 1;
                    }
                }
            }
            std::string got = r ? r : "";
            std::string what = "find_file(file=" + std::to_string(file.size()) + "B \"" + printable(file, 20) + "\", dir=" + (dnull ? "NULL" : std::to_string(dirarg.size()) + "B") + ", path=" + (pnull ? "NULL" : std::to_string(path.size()) + "B \"" + printable(path, 30) + "\"") + ")";
            if (r) { struct stat st; VT_CHECK(ctx, !access(r, R_OK) && !stat(r, &st) && !S_ISDIR(st.st_mode), "mismatch", "lookup-result-not-a-readable-file; " << what << " returned \"" << printable(got, 60) << "\""); }
            VT_CHECK(ctx, got == want, "mismatch", "lookup; " << what << " returned \"" << printable(got, 60) << "\" expected \"" << printable(want, 60) << "\"");
            if (!want.empty()) ctx.label(want == name ? "lookup:hit-in-cwd/dir" : "lookup:hit-in-pathlist"); else ctx.label("lookup:miss");
            if (too_big) ctx.label("lookup:file+dir-over-PATH_MAX");
            if (!dnull && (long)file.size() + (long)dirarg.size() >= PATH_MAX - 4 && (long)file.size() + (long)dirarg.size() <= PATH_MAX) ctx.label("lookup:file+dir-fills-the-name-buffer");
            if (path.size() > 32767) ctx.label("lookup:component>32767");
            if (path.size() > 65536) ctx.label("lookup:component>65536");
            if (path.find("::") != std::string::npos || (!path.empty() && path[0] == ':')) ctx.label("lookup:empty-component");
            if (!want.empty() || path.size() > 255) ctx.nontrivial();
        }
        done_ok();
    }

    // ---------------------------------------------------------------- (3) temp files
    void run_temp(const Case &c) {
        enter();
        cf_names("vtapp", "1.2.3");
        std::set<std::string> names;
        for (auto &op : c) {
            if (op.name == "tmpenv") {
                std::string v = expand(op.s(0), op.i(1, 1));
                if (op.i(0) == 0) { unsetenv("TMPDIR"); unsetenv("TMP"); }
                else if (op.i(0) == 1) { setenv("TMPDIR", op.i(2) ? v.c_str() : dir.c_str(), 1); unsetenv("TMP"); }
                else { unsetenv("TMPDIR"); setenv("TMP", op.i(2) ? v.c_str() : dir.c_str(), 1); }
                continue;
            }
            if (op.name != "temp") continue;
            std::string tmpl = expand(op.s(0), op.i(1, 1));
            for (auto &ch : tmpl) if (ch == '/' || ch == 0) ch = '_';
            long len = op.i(0);
            if (len < 1) len = 1;
            if (len > 400) len = 400;
            if ((long)tmpl.size() >= len) tmpl.resize((size_t)len - 1);
            int before = count_files();
            std::vector<char> out((size_t)len + 1);
            int fd = LA(c11_temp_file(tmpl.c_str(), len, out.data()));
            if (fd < 0) {
                ctx.label("temp:failed");
                VT_CHECK(ctx, fd == -1, "mismatch", "temp-failure-value; returned " << fd);
                VT_CHECK(ctx, count_files() == before, "mismatch", "temp-failed-but-created; a file was created although -1 was returned");
                continue;
            }
            ctx.label("temp:created");
            struct stat st;
            VT_CHECK(ctx, fstat(fd, &st) == 0, "mismatch", "temp-fd-not-open; the returned descriptor is not open");
            VT_CHECK(ctx, (st.st_mode & 07777) == 0600, "mismatch", "temp-mode; mode is " << std::oct << (st.st_mode & 07777) << std::dec << " expected 600");
            VT_CHECK(ctx, S_ISREG(st.st_mode), "mismatch", "temp-not-regular; not a regular file");
            char link[64], real[PATH_MAX];
            snprintf(link, sizeof link, "/proc/self/fd/%d", fd);
            ssize_t rl = readlink(link, real, sizeof real - 1);
            VT_CHECK(ctx, rl > 0, "harness", "readlink failed");
            real[rl] = 0;
            std::string rn = real;
            VT_CHECK(ctx, names.insert(rn).second, "mismatch", "temp-name-not-unique; the same name was handed out twice: " << rn);
            std::string got(out.data(), strnlen(out.data(), (size_t)len));
            VT_CHECK(ctx, strnlen(out.data(), (size_t)len) < (size_t)len, "mismatch", "temp-name-not-terminated; the name buffer is not NUL-terminated within len");
            VT_CHECK(ctx, got == rn.substr(0, (size_t)len - 1), "mismatch", "temp-name; the buffer holds \"" << printable(got, 60) << "\" but the file is \"" << printable(rn, 60) << "\" (len " << len << ")");
            if (len - 1 < (long)rn.size()) ctx.label("temp:name-truncated-to-len");
            close(fd);
            unlink(rn.c_str());
            ctx.nontrivial();
        }
        done_ok();
    }
    int count_files() { int n = 0; for (const char *d : {dir.c_str(), "/tmp"}) { DIR *dp = opendir(d); if (!dp) continue; while (auto e = readdir(dp)) if (strstr(e->d_name, "vtT")) n++; closedir(dp); } return n; }

    // ---------------------------------------------------------------- (4) lifecycle
    void run_cycle(const Case &c) {
        enter();
        ht_install();
        cf_names("vtapp", "1.2.3");
        { std::ofstream o(dir + "/a.cfg", std::ios::binary); o << kMagic << "begin main\n  line one\n  %put(fromfile yes)\n  value %get(fromfile)\nend\nbegin other\nbegin main\nx\nend\n"; }
        { std::ofstream o(dir + "/inc.cfg", std::ios::binary); o << kMagic << "begin main\n%include a.cfg\nend\n"; }
        { std::ofstream o(dir + "/deep.cfg", std::ios::binary); o << kMagic; for (int k = 0; k < 45; k++) o << "begin main\n"; o << "deep text\n"; }
        bool live = false, included = false;
        int cycles = 0;
        long nctx = 0, nbi = 0;
        std::map<std::string, std::string> vars;
        for (size_t at = 0; at < c.size(); at++) {
            const Op &op = c[at];
            ctx.step((int)at);
            ht_set_tag((int)at);
            if (op.name == "init") {
                if (live) continue;
                LA(cf_init()); live = true; vars.clear(); cycles++; nctx = 0; nbi = 0;
                if (cycles >= 2) ctx.label("second-cycle");
                VT_CHECK(ctx, cf_stack(0) == 0 && cf_fstate_idx() == 0, "mismatch", "state-left-behind; a freshly initialised subsystem starts with context depth " << cf_stack(0) << " and file stack index " << cf_fstate_idx() << " (cycle " << cycles << ")");
                continue;
            }
            if (!live) continue;
            if (op.name == "regctx") { long n = op.i(0);
                // context ids are unsigned char by the API: more than 255 contexts per cycle is outside the contract
                if (nctx + n > 250) { ctx.label("skipped:more-than-250-contexts"); continue; }
                nctx += n;
                for (long i = 0; i < n && i < 250; i++) { std::string nm = (i == 0 ? std::string("main") : "c" + std::to_string(at) + "_" + std::to_string(i)); LA(cf_register(nm.c_str(), i < 31 ? (int)i : 99)); } if (n > 20) ctx.label("context-table-grew"); }
            else if (op.name == "regnull") { LA(cf_register("null", 7)); ctx.label("null-context-handler-replaced"); }   // the documented way to give the outermost level a handler of the application's own
            else if (op.name == "regbi") { long n = op.i(0);
                // built-in ids are unsigned char as well: stay below 250 per cycle (the seven standard ones included)
                if (nbi + n > 240) { ctx.label("skipped:more-than-240-builtins"); continue; }
                nbi += n; for (long i = 0; i < n && i < 40; i++) { std::string nm = "b" + std::to_string(at) + "_" + std::to_string(i); LA(cf_register_builtin(nm.c_str())); } if (n >= 4) ctx.label("builtin-table-grew"); }
            else if (op.name == "parse") {
                bool inc = op.i(0) == 1, deep = op.i(0) == 2;
                LA(cf_parse(deep ? "deep.cfg" : inc ? "inc.cfg" : "a.cfg", nullptr, nullptr));
                if (inc) included = true;
                if (!deep) vars["fromfile"] = "yes";
                cf_reset_log();
                ctx.label(deep ? "parse-leaving-45-contexts-open" : inc ? "parse-with-include" : "parse");
            }
            else if (op.name == "put") { std::string k = op.s(0).empty() ? "k" : op.s(0), v = op.s(1).empty() ? "v" : op.s(1); std::string e = "%put(" + k + " " + v + ")"; LA(c11_expand(e.c_str())); vars[k] = v; ctx.label("put"); }
            else if (op.name == "get") {
                std::string k = op.s(0).empty() ? "k" : op.s(0), e = "<%get(" + k + ")>";
                std::string r = LA(c11_expand(e.c_str()));
                std::string want = "<" + (vars.count(k) ? vars[k] : std::string()) + ">";
                VT_CHECK(ctx, r == want, "mismatch", "var-store; %get(" << k << ") gave \"" << printable(r) << "\" expected \"" << printable(want) << "\" in cycle " << cycles << " (a fresh cycle starts with an empty store)");
                if (cycles >= 2 && !vars.count(k)) ctx.label("fresh-store-in-later-cycle");
            }
            else if (op.name == "free") {
                LA(cf_free());
                live = false;
                ctx.label("free");
                if (!ht_overflowed() && ht_live_count() != 0) {
                    char b[200];
                    ht_describe(b, sizeof b);
                    if (included && ctx.quarantined("include-path-leak") && ht_live_all_cstr_suffix(".cfg")) { ctx.excluded("KF-C11-1"); ctx.ok(); }   // exactly the known finding: nothing but %include path strings is live
                    ctx.fail("leak", std::string("heap-not-balanced; blocks allocated by the subsystem are still live after spifconf_free_subsystem(): ") + b);
                }
            }
        }
        if (cycles >= 2) ctx.nontrivial();
        done_ok();
    }
};

rc::Gen<std::string> gen_line_unit() {
    return rc::gen::exec([]() {
        static const std::vector<std::string> kw = {"begin main", "begin ctx3", "begin nosuch", "begin ", "begin", "end", "end x", "%include f.cfg", "%include nosuch.cfg", "%include", "%preproc", "%", "%put(k v)", "%get(k)", "%random(a b)",
            "value $HOME ~ \\n", "text `", "'unterminated", "a ${", "%exec", "<other-1.0>", "# comment", "", " ", "\t", "%get(", "b", "e", "%dirscan(.)", "%version()", "x%appname()y",
            "%put(k $VT_LONG)", "x %get(nosuch ${VT_LONG}) y", "%put(j %get(k)%get(k))",   // call arguments that grow when expanded
            "%e(echo hi)", "%ex(touch marker)", "%exe(x)", "x %g(k)", "%pu(k v)", "%ver()", "%r(a b)", "%inc f.cfg", "%pre cat"};   // prefixes of directive / built-in names are not those names
        int k = (int)*range(0, 9);
        if (k < 6) return std::string(*rc::gen::elementOf(kw));
        if (k < 8) { std::string s; long n = *range(0, 12); for (long i = 0; i < n; i++) s.push_back((char)*range(0, 255)); for (auto &ch : s) if (ch == '\n') ch = ' '; return s; }
        return *text_over("abc =%$~\\'\"()", 12);
    });
}
rc::Gen<Case> gen_file() {
    return rc::gen::exec([]() {
        Case c;
        c.push_back(mk("cfg", {*range(0, 7) == 0 ? 0 : 1, *range(0, 5) == 0 ? *range(150, 260) : *range(0, 12), *range(0, 4) == 0 ? *range(8, 30) : *range(0, 3)}));
        auto lines = *rc::gen::container<std::vector<Op>>(rc::gen::exec([]() {
            int k = (int)*range(0, 29);
            if (k == 0) return mk("ln", {*rc::gen::elementOf(std::vector<long>{20470, 20477, 20478, 20479, 20480, 20481, 41000}), *range(0, 9) ? 1 : 0}, {std::string("x")});
            if (k == 1) return mk("ln", {*rc::gen::elementOf(std::vector<long>{159, 160, 161, 200, 255, 256, 300}), 0}, {std::string("begin main\n")});
            if (k == 2) return mk("ln", {*range(1, 40), 0}, {std::string("end\n")});
            if (k == 3) return mk("selfinc");
            if (k == 4) return mk("ftmp", {*range(1, 2)});
            // a backquote / %exec command whose length is within a temporary-file name of the line-buffer size
            if (k == 5) return mk("ln", {*range(20380, 20476), 1}, {std::string("x"), std::string(*range(0, 1) ? "`" : "%exec(")});
            if (k == 6) return mk("ln", {1, 1}, {std::string(*range(0, 1) ? "%preproc cat" : "%preproc tr a b")});
            return mk("ln", {*range(0, 19) == 0 ? *range(2, 50) : 1, *range(0, 14) ? 1 : 0}, {*gen_line_unit()});
        }));
        for (auto &l : lines) c.push_back(l);
        return c;
    });
}
rc::Gen<Case> gen_lookup() {
    return rc::gen::exec([]() {
        Case c;
        long n = *range(1, 3);
        for (long q = 0; q < n; q++) {
            Op o = mk("find");
            static const std::vector<std::string> files = {"a.cfg", "b.cfg", "top.cfg", "dirfile", "nosuch", "sub/a.cfg", "", "./a.cfg", "x"};
            static const std::vector<std::string> dirs = {"d1", "d2", ".", "d2/sub", "nosuch", "", "d1/", "x"};
            static const std::vector<std::string> comps = {"d1", "d2", "d2/", "d2/sub", ".", "", "nosuch", "dirfile", "/", "d1/../d2", "x"};
            static const std::vector<long> reps = {1, 1, 1, 1, 255, 256, 4090, 4094, 4095, 4096, 4097, 5000, 32767, 32768, 65534, 65536, 65541, 70000};
            o.ints.assign(12, 1);
            o.strs.push_back(*rc::gen::elementOf(files));
            o.strs.push_back(*rc::gen::elementOf(dirs));
            if (*range(0, 9) == 0) { o.ints[0] = *rc::gen::elementOf(reps); }
            if (*range(0, 9) == 0) { o.ints[1] = *rc::gen::elementOf(reps); }
            long ncomp = *range(0, 4);
            for (long k = 0; k < ncomp; k++) { o.strs.push_back(*rc::gen::elementOf(comps)); if (*range(0, 5) == 0) o.ints[(size_t)(2 + k)] = *rc::gen::elementOf(reps); }
            o.ints[10] = *range(0, 3) == 0 ? 1 : 0;
            o.ints[11] = *range(0, 7) == 0 ? 1 : 0;
            if (*range(0, 5) == 0) {
                // dir + file together right at the size of the name buffer (PATH_MAX - 2 and its neighbours), with a search path to walk
                long total = *range(PATH_MAX - 5, PATH_MAX + 2), k = *rc::gen::elementOf(std::vector<long>{1, 5, 255, 2000, total - 1});
                o.strs[0] = "x"; o.strs[1] = "x"; o.ints[0] = std::max<long>(1, std::min(k, total - 1)); o.ints[1] = total - o.ints[0];
                o.ints[10] = 0; o.ints[11] = 0;
                if (o.strs.size() < 3) { o.strs.push_back("d2"); o.ints[2] = 1; }
            }
            c.push_back(o);
        }
        return c;
    });
}
rc::Gen<Case> gen_temp() {
    return rc::gen::exec([]() {
        Case c;
        c.push_back(mk("tmpenv", {*range(0, 2), *rc::gen::elementOf(std::vector<long>{1, 1, 30, 230, 300}), *range(0, 3) == 0 ? 1 : 0}, {*rc::gen::elementOf(std::vector<std::string>{"/nonexistent-dir", "/tmp", "d"})}));
        long n = *range(1, 5);
        for (long i = 0; i < n; i++) c.push_back(mk("temp", {*rc::gen::elementOf(std::vector<long>{1, 2, 10, 19, 20, 21, 40, 64, 100, 255, 256, 257, 300}), *rc::gen::elementOf(std::vector<long>{0, 1, 1, 1, 5, 60, 240, 300})}, {std::string("vtT")}));
        return c;
    });
}
rc::Gen<Case> gen_cycle() {
    return rc::gen::exec([]() {
        Case c;
        long ncyc = *range(1, 4);
        for (long cy = 0; cy < ncyc; cy++) {
            c.push_back(mk("init"));
            auto ops = *rc::gen::container<std::vector<Op>>(rc::gen::exec([]() {
                int k = (int)*range(0, 9);
                std::string key = *rc::gen::elementOf(std::vector<std::string>{"k", "key2", "fromfile"});
                if (k < 2) return mk("regctx", {*rc::gen::elementOf(std::vector<long>{1, 3, 19, 20, 21, 45, 170})});
                if (k < 3) return *range(0, 3) == 0 ? mk("regnull") : mk("regbi", {*rc::gen::elementOf(std::vector<long>{1, 2, 3, 4, 14, 35})});
                if (k < 5) return mk("parse", {*rc::gen::elementOf(std::vector<long>{0, 0, 1, 2})});
                if (k < 7) return mk("put", {}, {key, *rc::gen::elementOf(std::vector<std::string>{"v1", "v2", "x"})});
                return mk("get", {}, {key});
            }));
            for (auto &o : ops) c.push_back(o);
            c.push_back(mk("free"));
        }
        return c;
    });
}
struct C11 : Harness {
    const char *property() const override { return "C11"; }
    const char *rule() const override { return ""; }
    std::vector<std::string> modes() const override { return {"file", "lookup", "temp", "cycle"}; }
    int hang_budget(int tier) const override { return tier ? 120 : 60; }
    void run(const Case &c, Ctx &ctx) override {
        Interp in(ctx);
        std::string first = c.empty() ? "" : c[0].name;
        if (first == "cfg") in.run_file(c);
        else if (first == "find") in.run_lookup(c);
        else if (first == "tmpenv" || first == "temp") in.run_temp(c);
        else in.run_cycle(c);
    }
    bool search(const std::string &mode, const std::function<bool(const Case &)> &try_case) override {
        if (mode == "file") return rc_search("C11 arbitrary config files", gen_file(), try_case);
        if (mode == "lookup") return rc_search("C11 file lookup", gen_lookup(), try_case);
        if (mode == "temp") return rc_search("C11 temp files", gen_temp(), try_case);
        return rc_search("C11 init/use/free cycles", gen_cycle(), try_case);
    }
};
}  // namespace
vt::Harness *vt::make_harness() { return new C11(); }
