// C19 - local sockets carry bytes intact under short I/O and never leak descriptors.
#include "../../engine/rcglue.hpp"
#include "../../engine/latrack.hpp"
#include <cerrno>
#include <sys/stat.h>
#include <unistd.h>

extern "C" {
int c19_set_read_schedule(int, const int *); int c19_set_write_schedule(int, const int *); int c19_clear_schedules(void); int c19_fail_next_accept(int); int c19_close_eintr_once(void); int c19_close_eintr_clear(void);
int c19_injected(int); int c19_init(void); int c19_new(int, const char *, int); int c19_exists(int); int c19_open(int); int c19_close(int); int c19_set_nbio(int);
int c19_accept(int, int); int c19_dup(int, int); int c19_del(int); int c19_fd(int); int c19_send(int, const char *, long); long c19_recv(int); const char *c19_recv_data(void);
int c19_fd_is_open(int); const char *c19_fd_census(void);
}
using namespace vt;
namespace {
enum { LISTENER = 0, CLIENT = 1, ACCEPTED = 2, EXTRA = 3, NS = 6 };

struct Interp {
    Ctx &ctx;
    std::string dir, path;
    explicit Interp(Ctx &c) : ctx(c) {}
    void enter() {
        // inside the run's scratch directory (removed by check.py whatever happens to the case); a UNIX socket path
        // must fit sockaddr_un (108 bytes), so fall back to /tmp only if the scratch path is too long
        std::string base = config().scratch_dir.size() < 70 ? config().scratch_dir : std::string("/tmp");
        std::string t = base + "/vt19-XXXXXX";
        std::vector<char> tmpl(t.begin(), t.end());
        tmpl.push_back(0);
        VT_CHECK(ctx, mkdtemp(tmpl.data()) != nullptr, "harness", "mkdtemp failed");
        dir = tmpl.data();
        path = dir + "/s";
    }
    void leave() { unlink(path.c_str()); rmdir(dir.c_str()); }
    std::vector<int> sched(const Op &op, size_t from, bool write) {
        std::vector<int> s;
        for (size_t k = from; k < op.ints.size() && s.size() < 6; k++) {
            long v = op.ints[k];
            long m = ((v % 5) + 5) % 5;
            if (m == 0) s.push_back(0);
            else if (m == 1) s.push_back(1 + (int)((v / 5) % 7));             // very short
            else if (m == 2) s.push_back(1000 + (int)((v / 5) % 3000));       // short
            else if (m == 3) s.push_back(-1);                                 // EINTR
            else s.push_back(write ? -2 : 0);                                 // EAGAIN on the sending side only
        }
        return s;
    }
    // every socket object must refer to an open descriptor or to none
    void check_objects(const char *when) {
        for (int i = 0; i < NS; i++) if (c19_exists(i)) { int fd = c19_fd(i); if (fd >= 0) VT_CHECK(ctx, c19_fd_is_open(fd), "mismatch", "stale-descriptor; socket object " << i << " refers to descriptor " << fd << " which is closed " << when); }
    }

    // ---- transfer: payload + read/write schedules + receive mode
    void transfer(const Op &op) {
        std::string unit = op.s(0).empty() ? "x" : op.s(0);
        for (auto &ch : unit) if (ch == 0) ch = 'n';
        long total = op.i(0);
        if (total < 1) total = 1;
        if (total > 70000) total = 70000;
        std::string payload;
        while ((long)payload.size() < total) payload += unit;
        payload.resize((size_t)total);
        int mode = (int)(op.i(1) & 1);   // 0: receiver non-blocking; 1: sender closes before recv
        std::string before = c19_fd_census();
        VT_CHECK(ctx, LA(c19_new(LISTENER, path.c_str(), 1)) == 1 && LA(c19_open(LISTENER)) == 1, "mismatch", "listen; could not open a listening socket on " << path);
        VT_CHECK(ctx, LA(c19_new(CLIENT, path.c_str(), 0)) == 1 && LA(c19_open(CLIENT)) == 1, "mismatch", "connect; could not connect to " << path);
        VT_CHECK(ctx, LA(c19_accept(LISTENER, ACCEPTED)) == 1, "mismatch", "accept; accept returned NULL");
        std::vector<int> ws = sched(op, 2, true), rs = sched(op, 8, false);
        c19_set_write_schedule((int)ws.size(), ws.data());
        int sr = LA(c19_send(CLIENT, payload.data(), (long)payload.size()));
        c19_set_write_schedule(0, nullptr);
        VT_CHECK(ctx, sr == 1, "mismatch", "send-failed; send returned FALSE for " << payload.size() << " bytes");
        if (mode == 0) VT_CHECK(ctx, LA(c19_set_nbio(ACCEPTED)) == 1, "mismatch", "set_nbio failed");
        else VT_CHECK(ctx, LA(c19_close(CLIENT)) == 1, "mismatch", "close; close returned FALSE");
        c19_set_read_schedule((int)rs.size(), rs.data());
        long n = LA(c19_recv(ACCEPTED));
        c19_set_read_schedule(0, nullptr);
        VT_CHECK(ctx, n != -3, "mismatch", "recv-text-length-disagree; the received string's length field and its text disagree");
        VT_CHECK(ctx, n >= 0, "mismatch", "recv-null; recv returned NULL");
        std::string got(c19_recv_data(), (size_t)n);
        VT_CHECK(ctx, n == (long)payload.size(), "mismatch", "bytes-lost; sent " << payload.size() << " bytes, received " << n << " (write schedule " << show(ws) << ", read schedule " << show(rs) << ")");
        VT_CHECK(ctx, got == payload, "mismatch", "bytes-differ; the received text differs from what was sent (first difference at " << first_diff(got, payload) << ")");
        check_objects("after the transfer");
        for (int i = 0; i < NS; i++) VT_CHECK(ctx, LA(c19_del(i)) == 1, "mismatch", "del returned FALSE");
        unlink(path.c_str());
        std::string after = c19_fd_census();
        VT_CHECK(ctx, before == after, "mismatch", "descriptor-leak; open descriptors before [" << before << "] after deleting every socket [" << after << "]");
        for (int a : ws) { if (a > 0) ctx.label("short-write"); if (a == -1) ctx.label("EINTR-on-write"); if (a == -2) ctx.label("EAGAIN-on-write"); }
        for (int a : rs) { if (a > 0) ctx.label("short-read"); if (a == -1) ctx.label("EINTR-on-read"); }
        if (payload.size() > 4 * 4096) ctx.label("payload>4x4096");
        if (payload.size() >= 4095 && payload.size() <= 4097) ctx.label("payload~4096");
        ctx.label(mode ? "recv-after-sender-closed" : "recv-nonblocking");
        bool nontriv = payload.size() > 4096;
        for (int a : ws) if (a) nontriv = true;
        for (int a : rs) if (a) nontriv = true;
        if (nontriv) ctx.nontrivial();
    }
    static std::string show(const std::vector<int> &s) { std::string t; for (int a : s) { t += a == 0 ? "complete " : a == -1 ? "EINTR " : a == -2 ? "EAGAIN " : "short(" + std::to_string(a) + ") "; } return t; }
    static size_t first_diff(const std::string &a, const std::string &b) { size_t i = 0; while (i < a.size() && i < b.size() && a[i] == b[i]) i++; return i; }

    // ---- lifecycle: any ordering of the calls, with injected failures
    void lifecycle(const Case &c) {
        std::string before = c19_fd_census();
        bool interesting = false;
        int pending = 0;                 // connections made by clients and not yet accepted
        int is_listener[NS] = {0};       // 1 listener, 0 client / unknown
        for (size_t at = 0; at < c.size(); at++) {
            const Op &op = c[at];
            ctx.step((int)at);
            int i = (int)(((op.i(0) % 4) + 4) % 4), j = (int)(((op.i(1) % 4) + 4) % 4);
            const std::string &n = op.name;
            if (n == "lnew") { LA(c19_new(i, op.i(1) == 9 ? (dir + "/missing/s").c_str() : path.c_str(), (int)(op.i(2) & 1))); is_listener[i] = (int)(op.i(2) & 1); }
            else if (!c19_exists(i)) continue;
            else if (n == "open") { bool was_open = c19_fd(i) >= 0; int r = LA(c19_open(i)); if (!r) { ctx.label("failed-open"); interesting = true; } else if (!is_listener[i] && !was_open) pending++; }
            else if (n == "nbio") { if (c19_fd(i) >= 0) LA(c19_set_nbio(i)); }
            else if (n == "accept") {
                if (c19_fd(i) < 0 || i == j || !is_listener[i]) continue;
                bool inject = op.i(2) % 3 == 1;
                if (!inject && pending <= 0) continue;   // accept() waits for a connection: one thread cannot supply it later
                if (inject) { c19_fail_next_accept(op.i(2) % 2 ? ECONNABORTED : EMFILE); ctx.label("failed-accept"); interesting = true; }
                int r = LA(c19_accept(i, j));
                c19_fail_next_accept(0);
                is_listener[j] = 0;
                if (r) { ctx.label("accept"); interesting = true; pending--; }
            }
            else if (n == "send") { if (c19_fd(i) >= 0) LA(c19_send(i, "ping", 4)); }
            else if (n == "recv") { if (c19_fd(i) >= 0) { LA(c19_set_nbio(i)); LA(c19_recv(i)); } }
            else if (n == "close") { if (c19_fd(i) >= 0) { if (op.i(2) & 1) { c19_close_eintr_once(); ctx.label("close-EINTR"); } LA(c19_close(i)); c19_close_eintr_clear(); VT_CHECK(ctx, c19_fd(i) < 0, "mismatch", "close-left-descriptor; after close() the object still refers to descriptor " << c19_fd(i)); } }
            else if (n == "dup") { if (i != j) { int r = LA(c19_dup(i, j)); is_listener[j] = is_listener[i]; if (r) { ctx.label("dup"); if (c19_fd(i) >= 0) VT_CHECK(ctx, c19_fd(j) != c19_fd(i), "mismatch", "dup-shares-descriptor; the copy uses the original's descriptor " << c19_fd(i)); } } }
            else if (n == "del") LA(c19_del(i));
            check_objects(("after " + n).c_str());
        }
        for (int i = 0; i < NS; i++) VT_CHECK(ctx, LA(c19_del(i)) == 1, "mismatch", "del returned FALSE");
        unlink(path.c_str());
        std::string after = c19_fd_census();
        VT_CHECK(ctx, before == after, "mismatch", "descriptor-leak; open descriptors before [" << before << "] after deleting every socket [" << after << "]");
        if (interesting) ctx.nontrivial();
    }
    void run(const Case &c) {
        ht_install();
        c19_init();
        enter();
        // a process started without standard input: the first descriptor the library opens is 0, a value like any other
        for (auto &op : c) if (op.name == "nostdin") { close(0); ctx.label("descriptor-0-free-for-the-library"); break; }
        if (!c.empty() && c[0].name == "xfer") { for (size_t at = 0; at < c.size(); at++) { ctx.step((int)at); if (c[at].name == "xfer") transfer(c[at]); } }
        else lifecycle(c);
        leave();
        if (!ht_overflowed() && ht_live_count() != 0) { char b[200]; ht_describe(b, sizeof b); ctx.fail("leak", std::string("heap-not-balanced; blocks live after deleting every socket: ") + b); }
        ctx.ok();
    }
};
rc::Gen<Case> gen_xfer() {
    return rc::gen::exec([]() {
        Op o = mk("xfer");
        static const std::vector<long> lens = {1, 2, 62, 4095, 4096, 4097, 8192, 16384, 16391, 40000};
        o.ints.push_back(*range(0, 2) == 0 ? *range(1, 9000) : *rc::gen::elementOf(lens));
        o.ints.push_back(*range(0, 1));
        for (int k = 0; k < 12; k++) o.ints.push_back(*range(0, 2) == 0 ? 0 : *range(1, 100000));
        std::string unit;
        long ul = *range(1, 9);
        for (long i = 0; i < ul; i++) unit.push_back((char)*range(1, 255));
        o.strs.push_back(unit);
        Case c = {o};
        return c;
    });
}
rc::Gen<Case> gen_life() {
    return rc::gen::exec([]() {
        Case c;
        c.push_back(mk("lnew", {0, 0, 1}));
        c.push_back(mk("open", {0}));
        bool nostdin = *range(0, 3) == 0;
        if (*range(0, 3)) { c.push_back(mk("lnew", {1, 0, 0})); c.push_back(mk("open", {1})); }
        auto ops = *rc::gen::container<std::vector<Op>>(rc::gen::exec([]() {
            int k = (int)*range(0, 19);
            long i = *range(0, 3), j = *range(0, 3), x = *range(0, 11);
            if (k < 3) return mk("lnew", {i, *range(0, 5) == 0 ? 9 : 0, *range(0, 1)});
            if (k < 6) return mk("open", {i});
            if (k < 7) return mk("nbio", {i});
            if (k < 11) return mk("accept", {0, j == 0 ? 2 : j, x});
            if (k < 13) return mk("send", {i});
            if (k < 14) return mk("recv", {i});
            if (k < 16) return mk("close", {i, 0, x});
            if (k < 18) return mk("dup", {i, j});
            return mk("del", {i});
        }));
        for (auto &o : ops) c.push_back(o);
        if (nostdin) c.push_back(mk("nostdin"));
        return c;
    });
}
struct C19 : Harness {
    const char *property() const override { return "C19"; }
    const char *rule() const override { return ""; }
    std::vector<std::string> modes() const override { return {"transfer", "lifecycle"}; }
    int hang_budget(int tier) const override { return tier ? 60 : 30; }
    void run(const Case &c, Ctx &ctx) override { Interp in(ctx); in.run(c); }
    bool search(const std::string &mode, const std::function<bool(const Case &)> &try_case) override {
        if (mode == "lifecycle") return rc_search("C19 socket lifecycle orderings", gen_life(), try_case);
        return rc_search("C19 transfers under I/O schedules", gen_xfer(), try_case);
    }
};
}  // namespace
vt::Harness *vt::make_harness() { return new C19(); }
