/* C19 shim: UNIX-domain sockets through the URL-based socket API, with read/write/accept/close interposed
 * (link-time --wrap) so that the harness owns the kernel's choices: short counts, EINTR, EAGAIN, failures. */
#include "config.h"
#include <libast.h>
#include <dirent.h>

#define NSOCK 8
static spif_socket_t S[NSOCK];
static char recvbuf[1 << 17];

extern ssize_t __real_read(int, void *, size_t);
extern ssize_t __real_write(int, const void *, size_t);
extern int __real_accept(int, struct sockaddr *, socklen_t *);
extern int __real_close(int);

/* schedules: one entry per call of read / write while active: 0 complete, >0 short (cap to that many bytes),
 * -1 EINTR, -2 EAGAIN */
static int rd_sched[16], rd_n, rd_i, wr_sched[16], wr_n, wr_i, sched_fd_lo = 3;
static int acc_fail_errno, close_eintr_once;
static int injected_reads, injected_writes;

ssize_t __wrap_read(int fd, void *buf, size_t n)
{
    if (fd >= sched_fd_lo && rd_i < rd_n) {
        int a = rd_sched[rd_i++];
        injected_reads++;
        if (a == -1) { errno = EINTR; return -1; }
        if (a > 0 && n > (size_t) a) n = (size_t) a;
    }
    return __real_read(fd, buf, n);
}
ssize_t __wrap_write(int fd, const void *buf, size_t n)
{
    if (fd >= sched_fd_lo && wr_i < wr_n) {
        int a = wr_sched[wr_i++];
        injected_writes++;
        if (a == -1) { errno = EINTR; return -1; }
        if (a == -2) { errno = EAGAIN; return -1; }
        if (a > 0 && n > (size_t) a) n = (size_t) a;
    }
    return __real_write(fd, buf, n);
}
int __wrap_accept(int fd, struct sockaddr *a, socklen_t *l)
{
    if (acc_fail_errno) { errno = acc_fail_errno; acc_fail_errno = 0; return -1; }
    return __real_accept(fd, a, l);
}
int __wrap_close(int fd)
{
    if (close_eintr_once && fd >= sched_fd_lo) { close_eintr_once = 0; errno = EINTR; return -1; }   /* fails without closing */
    return __real_close(fd);
}
int c19_set_read_schedule(int n, const int *s) { int i; rd_n = n > 16 ? 16 : n; rd_i = 0; for (i = 0; i < rd_n; i++) rd_sched[i] = s[i]; return 1; }
int c19_set_write_schedule(int n, const int *s) { int i; wr_n = n > 16 ? 16 : n; wr_i = 0; for (i = 0; i < wr_n; i++) wr_sched[i] = s[i]; return 1; }
int c19_clear_schedules(void) { rd_n = wr_n = rd_i = wr_i = 0; return 1; }
int c19_fail_next_accept(int err) { acc_fail_errno = err; return 1; }
int c19_close_eintr_once(void) { close_eintr_once = 1; return 1; }
int c19_close_eintr_clear(void) { close_eintr_once = 0; return 1; }   /* the injection belongs to one close operation only */
int c19_injected(int which) { return which ? injected_writes : injected_reads; }

int c19_init(void)
{
    libast_debug_level = 0;
    memset(S, 0, sizeof(S));
    /* the resolver keeps one-time internal buffers: make it allocate them before heap tracking starts */
    (void) getprotobyname("unix"); (void) getservbyname("unix", "tcp"); (void) getservbyname("unix", "udp"); (void) getprotobyname("tcp");
    return 1;
}
/* listener (local url) or client (remote url) on unix:<path> */
int c19_new(int i, const char *path, int listener)
{
    char text[300];
    spif_url_t u;
    snprintf(text, sizeof(text), "unix:%s", path);
    u = spif_url_new_from_ptr((spif_charptr_t) text);
    if (S[i]) { spif_socket_del(S[i]); S[i] = NULL; }
    S[i] = listener ? spif_socket_new_from_urls(u, (spif_url_t) NULL) : spif_socket_new_from_urls((spif_url_t) NULL, u);
    spif_url_del(u);
    return S[i] != NULL;
}
int c19_exists(int i) { return S[i] != NULL; }
int c19_open(int i) { return spif_socket_open(S[i]); }
int c19_close(int i) { return spif_socket_close(S[i]); }
int c19_set_nbio(int i) { return spif_socket_set_nbio(S[i]); }
int c19_accept(int i, int dst)
{
    if (S[dst]) { spif_socket_del(S[dst]); S[dst] = NULL; }
    S[dst] = spif_socket_accept(S[i]);
    return S[dst] != NULL;
}
int c19_dup(int i, int dst)
{
    if (S[dst]) { spif_socket_del(S[dst]); S[dst] = NULL; }
    S[dst] = spif_socket_dup(S[i]);
    return S[dst] != NULL;
}
int c19_del(int i) { int r = 1; if (S[i]) { r = spif_socket_del(S[i]); S[i] = NULL; } return r; }
int c19_fd(int i) { return S[i] ? (int) S[i]->fd : -2; }
int c19_send(int i, const char *data, long n)
{
    char *p = (char *) malloc((size_t) n + 1);
    spif_str_t s;
    int r;
    memcpy(p, data, (size_t) n);
    p[n] = 0;
    s = spif_str_new_from_ptr((spif_charptr_t) p);
    free(p);
    r = spif_socket_send(S[i], s);
    spif_str_del(s);
    return r;
}
/* returns length (-1 when recv returned NULL); data in the shim buffer */
long c19_recv(int i)
{
    spif_str_t s = spif_socket_recv(S[i]);
    long n;
    if (SPIF_STR_ISNULL(s)) return -1;
    n = (long) spif_str_get_len(s);
    if (n >= (long) sizeof(recvbuf)) n = (long) sizeof(recvbuf) - 1;
    if (n > 0) memcpy(recvbuf, SPIF_STR_STR(s), (size_t) n);
    recvbuf[n] = 0;
    if (SPIF_STR_STR(s) && (long) strlen((char *) SPIF_STR_STR(s)) != (long) spif_str_get_len(s)) n = -3;   /* text/len disagree */
    spif_str_del(s);
    return n;
}
const char *c19_recv_data(void) { return recvbuf; }
int c19_fd_is_open(int fd) { return fcntl(fd, F_GETFD) != -1; }
/* sorted list of open descriptors as text "3,4,7" */
const char *c19_fd_census(void)
{
    static char out[4096];
    DIR *d = opendir("/proc/self/fd");
    struct dirent *e;
    int fds[512], n = 0, i, j, dfd;
    size_t off = 0;
    out[0] = 0;
    if (!d) return "?";
    dfd = dirfd(d);
    while ((e = readdir(d)) && n < 512) { int v; if (e->d_name[0] == '.') continue; v = atoi(e->d_name); if (v != dfd) fds[n++] = v; }
    closedir(d);
    for (i = 0; i < n; i++) for (j = i + 1; j < n; j++) if (fds[j] < fds[i]) { int t = fds[i]; fds[i] = fds[j]; fds[j] = t; }
    for (i = 0; i < n; i++) off += (size_t) snprintf(out + off, sizeof(out) - off, "%s%d", i ? "," : "", fds[i]);
    return out;
}
