// C17 - version comparison is a safe, deterministic, antisymmetric order.
#include "../../engine/rcglue.hpp"
#include "../../engine/latrack.hpp"

extern "C" { int c17_init(void); int c17_cmp(const char *, long, const char *, long, int); }
using namespace vt;
namespace {

const std::vector<std::string> kSpecial = {"snap", "pre", "alpha", "beta", "rc"};
// (near misses of the pre-release words included: the end-of-string rule once matched them as prefixes)
const std::vector<std::string> kWords = {"snap", "pre", "alpha", "beta", "rc", "final", "p", "a", "b", "patch", "zeta", "gamma", "prep", "pr", "alphabet", "alph", "betamax", "snapshot", "sna", "rcx", "r"};

struct Ver { std::vector<long> nums; std::string word; long sufnum = -1; long pad = 0; /* 2 bits per component: leading zeros */ };
std::string render(const Ver &v) {
    std::string s;
    for (size_t i = 0; i < v.nums.size(); i++) { if (i) s += '.'; s += std::string((size_t)((v.pad >> (2 * i)) & 3), '0'); s += std::to_string(v.nums[i]); }
    s += v.word;
    if (v.sufnum >= 0) s += std::to_string(v.sufnum);
    return s;
}
int rank(const std::string &w) { for (size_t i = 0; i < kSpecial.size(); i++) if (kSpecial[i] == w) return (int)i; return -1; }
// reference from the statement; returns 2 when the stated rules do not decide the pair
int reference(const Ver &a, const Ver &b) {
    size_t common = std::min(a.nums.size(), b.nums.size());
    for (size_t i = 0; i < common; i++) if (a.nums[i] != b.nums[i]) return a.nums[i] < b.nums[i] ? -1 : 1;
    if (a.nums.size() != b.nums.size()) {
        // "ranks a version below any longer version that merely adds further numeric components"
        if (a.word.empty() && b.word.empty()) return a.nums.size() < b.nums.size() ? -1 : 1;
        return 2;
    }
    if (a.word.empty() && b.word.empty()) return 0;
    if (a.word.empty() != b.word.empty()) {
        const Ver &w = a.word.empty() ? b : a;       // the one with a suffix
        int r = rank(w.word);
        int suffixed_vs_bare = (r >= 0 && r <= 3) ? -1 : 1;   // snap/pre/alpha/beta below bare, anything else above
        return a.word.empty() ? -suffixed_vs_bare : suffixed_vs_bare;
    }
    if (a.word != b.word) {
        int ra = rank(a.word), rb = rank(b.word);
        if (ra >= 0 && rb >= 0) return ra < rb ? -1 : 1;       // pre-release words among themselves
        return 2;
    }
    if (a.sufnum >= 0 && b.sufnum >= 0) return a.sufnum < b.sufnum ? -1 : (a.sufnum > b.sufnum ? 1 : 0);
    if (a.sufnum < 0 && b.sufnum < 0) return 0;
    return 2;
}

struct Runner {
    Ctx &ctx;
    long evals = 0, nontrivial = 0;
    explicit Runner(Ctx &c) : ctx(c) {}

    // the universal laws on one pair
    void laws(const std::string &a, const std::string &b, bool paint) {
        evals++;
        int ab = LA(c17_cmp(a.data(), (long)a.size(), b.data(), (long)b.size(), -1));
        int ba = LA(c17_cmp(b.data(), (long)b.size(), a.data(), (long)a.size(), -1));
        VT_CHECK(ctx, ab >= -1 && ab <= 1 && ba >= -1 && ba <= 1, "mismatch", "range; result outside {-1,0,1}");
        VT_CHECK(ctx, ab == -ba, "mismatch", "antisymmetry; compare(\"" << printable(a, 40) << "\",\"" << printable(b, 40) << "\")=" << ab << " but the reverse gives " << ba);
        if (a == b) VT_CHECK(ctx, ab == 0, "mismatch", "reflexivity; compare(x,x)=" << ab << " for \"" << printable(a, 40) << "\"");
        // determinism: same answer again after unrelated calls ...
        LA(c17_cmp("1.2.3", 5, "1.2.4", 5, -1));
        LA(c17_cmp("zzzzzzzzzzzzzzzzzzzzzzzzzzzzzzzz", 32, "0000000000000000000000", 22, -1));
        int again = LA(c17_cmp(a.data(), (long)a.size(), b.data(), (long)b.size(), -1));
        VT_CHECK(ctx, again == ab, "mismatch", "determinism-prior-calls; compare(\"" << printable(a, 40) << "\",\"" << printable(b, 40) << "\") gave " << ab << " then " << again << " after unrelated calls");
        // ... and under three different stack fill patterns
        if (paint) {
            for (int p = 0; p < 3; p++) {
                int r = LA(c17_cmp(a.data(), (long)a.size(), b.data(), (long)b.size(), p));
                VT_CHECK(ctx, r == ab, "mismatch", "determinism-stack-contents; compare(\"" << printable(a, 40) << "\",\"" << printable(b, 40) << "\") gave " << ab << " but " << r << " with the stack painted (pattern " << p << ")");
            }
        }
        if (a != b && !a.empty() && !b.empty()) nontrivial++;
        for (const std::string *x : {&a, &b}) for (char ch : *x) if ((unsigned char)ch >= 0x80) { ctx.label("bytes>=0x80"); goto labelled; }
        labelled:;
        if (!a.empty() && !b.empty()) {
            auto cls = [](unsigned char c) { return isalpha(c) ? 0 : isdigit(c) ? 1 : 2; };
            if (cls((unsigned char)a[0]) != cls((unsigned char)b[0])) ctx.label("mixed-class-first-characters");
        }
    }
    void wellformed(const Ver &a, const Ver &b) {
        std::string sa = render(a), sb = render(b);
        laws(sa, sb, true);
        int want = reference(a, b);
        if (want == 2) { ctx.label("wellformed:undecided-by-the-stated-rules"); return; }
        int got = LA(c17_cmp(sa.data(), (long)sa.size(), sb.data(), (long)sb.size(), -1));
        VT_CHECK(ctx, got == want, "mismatch", "order; compare(\"" << sa << "\",\"" << sb << "\")=" << got << " expected " << want);
        ctx.label("wellformed:decided");
        if (!a.word.empty() && !b.word.empty() && a.word != b.word) ctx.label("wellformed:pre-release-word-pair");
        if (a.word.empty() != b.word.empty()) ctx.label("wellformed:suffix-vs-bare");
        if (a.nums.size() != b.nums.size()) ctx.label("wellformed:prefix-pair");
        if (a.pad || b.pad) ctx.label("wellformed:leading-zeros");
    }
    void batch(const Op &op) {
        static const char alpha[] = {'a', 'b', '0', '1', '.', '-'};
        long L = op.i(0), part = op.i(1), nparts = op.i(2), k = 0;
        std::vector<std::string> all;
        std::string s;
        std::function<void(long)> rec = [&](long d) { all.push_back(s); if (d == L) return; for (char c : alpha) { s.push_back(c); rec(d + 1); s.pop_back(); } };
        rec(0);
        for (size_t i = 0; i < all.size(); i++) for (size_t j = i; j < all.size(); j++) {
            if (k++ % nparts != part) continue;
            ctx.progress(op_to_text(mk("pair", {0}, {all[i], all[j]})));
            laws(all[i], all[j], false);
        }
    }
};

Ver op_ver(const Op &op, size_t ibase, size_t sidx) {
    Ver v;
    long n = op.i(ibase);
    for (long i = 0; i < n && i < 4; i++) v.nums.push_back(op.i(ibase + 1 + (size_t)i));
    v.word = op.s(sidx);
    v.sufnum = op.i(ibase + 5, -1);
    if (v.word.empty()) v.sufnum = -1;
    v.pad = op.i(12 + (ibase ? 1 : 0), 0);
    return v;
}

rc::Gen<std::string> gen_runs() {
    return rc::gen::exec([]() {
        std::string s;
        long nruns = *range(1, 5);
        for (long r = 0; r < nruns; r++) {
            int cls = (int)*range(0, 9); cls = cls < 9 ? cls % 3 : 3;   // one run in ten is made of bytes >= 0x80 and control characters (laws only)
            static const long lens[] = {1, 2, 3, 5, 9, 10, 11, 19, 20, 126, 127, 128, 129, 130, 300, 5000};
            long len = *range(0, 9) < 7 ? *range(1, 5) : *rc::gen::elementOf(std::vector<long>(lens, lens + 16));
            std::string alpha = cls == 0 ? "abzRC" : cls == 1 ? "0129" : cls == 2 ? ".-_+~ " : std::string("\x80" "\xff" "\xe9" "\x01" "\xb2");
            char first = *rc::gen::elementOf(alpha);
            bool uniform = *range(0, 1) == 0;
            for (long i = 0; i < len; i++) s.push_back(uniform ? first : *rc::gen::elementOf(alpha));
        }
        return s;
    });
}
rc::Gen<Case> gen_case() {
    return rc::gen::exec([]() {
        Case c;
        int k = (int)*range(0, 9);
        if (k < 5) {
            // well-formed pair, usually sharing a prefix so that the interesting rules decide
            auto gv = []() {
                std::vector<long> v;
                long n = *range(1, 4);
                for (long i = 0; i < n; i++) v.push_back(*range(0, 9) < 7 ? *range(0, 12) : *range(0, 1000000));
                return v;
            };
            std::vector<long> na = gv(), nb = na;
            int rel = (int)*range(0, 5);
            if (rel == 0) nb = gv();
            else if (rel == 1 && nb.size() < 4) nb.push_back(*range(0, 20));
            else if (rel == 2) nb[(size_t)*range(0, (long)nb.size() - 1)] += *range(1, 3);
            std::string wa = *range(0, 2) == 0 ? std::string() : *rc::gen::elementOf(kWords);
            std::string wb = *range(0, 2) == 0 ? wa : (*range(0, 2) == 0 ? std::string() : *rc::gen::elementOf(kWords));
            Op o = mk("wf");
            o.ints = {(long)na.size(), 0, 0, 0, 0, *range(0, 2) == 0 ? -1 : *range(0, 30), (long)nb.size(), 0, 0, 0, 0, *range(0, 2) == 0 ? -1 : *range(0, 30)};
            for (size_t i = 0; i < na.size(); i++) o.ints[1 + i] = na[i];
            for (size_t i = 0; i < nb.size(); i++) o.ints[7 + i] = nb[i];
            // leading zeros do not change a numeric component ("1.05" is "1.5")
            o.ints.push_back(*range(0, 2) == 0 ? *range(0, 255) : 0);
            o.ints.push_back(*range(0, 2) == 0 ? *range(0, 255) : 0);
            o.strs = {wa, wb};
            c.push_back(o);
        } else {
            std::string a = *gen_runs(), b;
            int rel = (int)*range(0, 3);
            if (rel == 0) b = a; else if (rel == 1) b = a + *gen_runs(); else b = *gen_runs();
            c.push_back(mk("pair", {1}, {a, b}));
        }
        return c;
    });
}

struct C17 : Harness {
    const char *property() const override { return "C17"; }
    const char *rule() const override { return ""; }
    std::vector<std::string> modes() const override { return {"enum", "random"}; }
    int hang_budget(int tier) const override { return tier ? 120 : 60; }
    void run(const Case &c, Ctx &ctx) override {
        ht_install();
        c17_init();
        Runner r(ctx);
        bool is_batch = false;
        for (size_t i = 0; i < c.size(); i++) {
            ctx.step((int)i);
            const Op &op = c[i];
            if (op.name == "batch") { is_batch = true; r.batch(op); }
            else if (op.name == "pair") {
                r.laws(op.s(0), op.s(1), true);
                auto longrun = [](const std::string &s) { size_t best = 0, cur = 0; int pc = -1; for (unsigned char ch : s) { int cl = isalpha(ch) ? 0 : isdigit(ch) ? 1 : 2; cur = cl == pc ? cur + 1 : 1; pc = cl; best = std::max(best, cur); } return best; };
                if (longrun(op.s(0)) >= 128 || longrun(op.s(1)) >= 128) ctx.label("run>=128");
            }
            else if (op.name == "wf") r.wellformed(op_ver(op, 0, 0), op_ver(op, 6, 1));
            else ctx.fail("harness", "unknown op " + op.name);
        }
        if (!ht_overflowed() && ht_live_count() != 0) ctx.fail("leak", "heap-not-balanced; version_compare allocated memory it did not release");
        if (is_batch) { ctx.evals(r.evals); ctx.nontrivial_count(r.nontrivial); }
        else if (r.nontrivial) ctx.nontrivial();
        ctx.ok();
    }
    bool search(const std::string &mode, const std::function<bool(const Case &)> &try_case) override {
        if (mode == "enum") {
            long nw = atol(config().kv.count("nworkers") ? config().kv["nworkers"].c_str() : "1");
            return try_case({mk("batch", {config().tier ? 4 : 3, config().worker, nw})});
        }
        return rc_search("C17 version_compare laws + well-formed order", gen_case(), try_case);
    }
};
}  // namespace
vt::Harness *vt::make_harness() { return new C17(); }
