/* C17 shim: spiftool_version_compare on exact-size heap strings, optionally after painting the stack. */
#include "config.h"
#include <libast.h>

int c17_init(void) { libast_debug_level = 0; return 1; }

static __attribute__((noinline)) void paint_stack(int pattern)
{
    volatile unsigned char area[48 * 1024];
    unsigned i;
    for (i = 0; i < sizeof(area); i++) area[i] = (unsigned char) (pattern == 2 ? (i * 131u + 7u) : (pattern ? 0xFF : 0x00));
    __asm__ volatile("" : : "r"(area) : "memory");
}
static char *exact(const char *t, long n) { char *p = (char *) malloc((size_t) n + 1); memcpy(p, t, (size_t) n); p[n] = 0; return p; }

/* pattern < 0: no painting */
int c17_cmp(const char *a, long an, const char *b, long bn, int pattern)
{
    char *pa = exact(a, an), *pb = exact(b, bn);
    int r;
    if (pattern >= 0) paint_stack(pattern);
    /* "regardless of prior calls": whatever an earlier library call left in errno is part of that history */
    errno = pattern == 1 ? ERANGE : pattern == 2 ? EINVAL : 0;
    r = (int) spiftool_version_compare((spif_charptr_t) pa, (spif_charptr_t) pb);
    free(pa);
    free(pb);
    return r;
}
