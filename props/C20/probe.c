/* C20 probe: one translation unit using every macro of the debugging family, compiled once per
 * compile-time DEBUG value.  It runs a script (L n = runtime level, Q b = silent, N name = program name,
 * X k = execute statement k in a forked child with stdout+stderr captured) and prints one trace line per
 * statement: exit status, return value, whether control reached the end of the statement's function,
 * how many times the macro's argument expression was evaluated, and the captured output in hex. */
#include "config.h"
#include <libast.h>
#include <sys/wait.h>
#include <fcntl.h>
#include <sys/resource.h>

static int evals;
static int flow;
static int bump(void) { return ++evals; }

#define DSTMT(fn, MAC)  static int fn(void) { MAC(("body-" #MAC "-%d\n", bump())); flow = 1; return 1; }
#define IFSTMT(fn, MAC) static int fn(void) { MAC { bump(); } flow = 1; return 1; }
DSTMT(s_d_options, D_OPTIONS)
DSTMT(s_d_obj, D_OBJ)
DSTMT(s_d_conf, D_CONF)
DSTMT(s_d_mem, D_MEM)
DSTMT(s_d_strings, D_STRINGS)
DSTMT(s_d_parse, D_PARSE)
DSTMT(s_d_never, D_NEVER)
IFSTMT(s_if_options, D_OPTIONS_IF)
IFSTMT(s_if_obj, D_OBJ_IF)
IFSTMT(s_if_conf, D_CONF_IF)
IFSTMT(s_if_mem, D_MEM_IF)
IFSTMT(s_if_strings, D_STRINGS_IF)
IFSTMT(s_if_parse, D_PARSE_IF)
DSTMT(s_dprintf1, DPRINTF1)
DSTMT(s_dprintf2, DPRINTF2)
DSTMT(s_dprintf3, DPRINTF3)
DSTMT(s_dprintf4, DPRINTF4)
DSTMT(s_dprintf5, DPRINTF5)
DSTMT(s_dprintf6, DPRINTF6)
DSTMT(s_dprintf7, DPRINTF7)
DSTMT(s_dprintf8, DPRINTF8)
DSTMT(s_dprintf9, DPRINTF9)
DSTMT(s_dprintf, DPRINTF)
static void v_assert_true(void) { ASSERT(bump() > 0); flow = 1; }
static void v_assert_false(void) { ASSERT(bump() < 0); flow = 1; }
static int s_assert_true(void) { v_assert_true(); return 0; }
static int s_assert_false(void) { v_assert_false(); return 0; }
static int s_assert_rval_true(void) { ASSERT_RVAL(bump() > 0, 77); flow = 1; return 1; }
static int s_assert_rval_false(void) { ASSERT_RVAL(bump() < 0, 77); flow = 1; return 1; }
static int s_notreached_rval(void) { ASSERT_NOTREACHED_RVAL(77); flow = 1; return 1; }
static void v_require_true(void) { REQUIRE(bump() > 0); flow = 1; }
static void v_require_false(void) { REQUIRE(bump() < 0); flow = 1; }
static int s_require_true(void) { v_require_true(); return 0; }
static int s_require_false(void) { v_require_false(); return 0; }
static int s_require_rval_true(void) { REQUIRE_RVAL(bump() > 0, 77); flow = 1; return 1; }
static int s_require_rval_false(void) { REQUIRE_RVAL(bump() < 0, 77); flow = 1; return 1; }
static int s_prim_dprintf(void) { int n = libast_dprintf("message-%d\n", bump()); flow = 1; return n; }
static int s_prim_warning(void) { libast_print_warning("careful-%d\n", bump()); flow = 1; return 1; }
static int s_prim_error(void) { libast_print_error("broken-%d\n", bump()); flow = 1; return 1; }
static int s_prim_fatal(void) { libast_fatal_error("dead-%d\n", bump()); flow = 1; return 1; }

/* messages without any conversion (a formatted-output shortcut for them must obey the same gates) */
static int s_d_plain(void) { D_OPTIONS(("plain-D_OPTIONS\n")); flow = 1; return 1; }
static int s_dprintf3_plain(void) { DPRINTF3(("plain-DPRINTF3\n")); flow = 1; return 1; }
static int s_prim_dprintf_plain(void) { int n = libast_dprintf("plain-message\n"); flow = 1; return n; }

static int (*const stmts[])(void) = {
    s_d_options, s_d_obj, s_d_conf, s_d_mem, s_d_strings, s_d_parse, s_d_never,                      /* 0..6 */
    s_if_options, s_if_obj, s_if_conf, s_if_mem, s_if_strings, s_if_parse,                           /* 7..12 */
    s_dprintf1, s_dprintf2, s_dprintf3, s_dprintf4, s_dprintf5, s_dprintf6, s_dprintf7, s_dprintf8, s_dprintf9, /* 13..21 */
    s_dprintf,                                                                                       /* 22 */
    s_assert_true, s_assert_false, s_assert_rval_true, s_assert_rval_false, s_notreached_rval,        /* 23..27 */
    s_require_true, s_require_false, s_require_rval_true, s_require_rval_false,                      /* 28..31 */
    s_prim_dprintf, s_prim_warning, s_prim_error, s_prim_fatal,                                      /* 32..35 */
    s_d_plain, s_dprintf3_plain, s_prim_dprintf_plain                                                /* 36..38 */
};
#define NSTMT ((int) (sizeof(stmts) / sizeof(stmts[0])))

int main(int argc, char **argv)
{
    FILE *fp;
    char op, cap[600];
    static char script[1 << 16];
    size_t len;
    if (argc < 3 || !(fp = fopen(argv[1], "r"))) return 2;
    /* the script is read from memory: a child leaving through exit() would otherwise rewind the shared descriptor */
    len = fread(script, 1, sizeof script - 1, fp);
    fclose(fp);
    if (!(fp = fmemopen(script, len, "r"))) return 2;
    snprintf(cap, sizeof cap, "%s/c20-cap-%ld", argv[2], (long) getpid());
    printf("BUILD %d\n", (int) DEBUG);
    while (fscanf(fp, " %c", &op) == 1) {
        long v;
        char name[64];
        if (op == 'L') { if (fscanf(fp, "%ld", &v) != 1) return 2; libast_debug_level = (unsigned int) v; }
        else if (op == 'Q') { if (fscanf(fp, "%ld", &v) != 1) return 2; libast_set_silent(v ? TRUE : FALSE); }
        else if (op == 'N') { if (fscanf(fp, "%60s", name) != 1) return 2; libast_set_program_name(name); }
        else if (op == 'X') {
            int p[2], st = 0, res[3] = { -1, -1, -1 }, fd, k;
            pid_t pid;
            unsigned char buf[4096];
            ssize_t n;
            if (fscanf(fp, "%ld", &v) != 1 || v < 0 || v >= NSTMT) return 2;
            fflush(stdout);
            if (pipe(p)) return 3;
            pid = fork();
            if (pid == 0) {
                struct rlimit rl = { 8u << 20, 8u << 20 };
                int r;
                setrlimit(RLIMIT_STACK, &rl);
                fd = open(cap, O_CREAT | O_TRUNC | O_WRONLY | O_APPEND, 0600);
                dup2(fd, 1); dup2(fd, 2);
                close(p[0]);
                alarm(20);
                r = stmts[v]();
                res[0] = r; res[1] = flow; res[2] = evals;
                fflush(NULL);
                if (write(p[1], res, sizeof res) != sizeof res) _exit(4);
                _exit(0);
            }
            close(p[1]);
            if (read(p[0], res, sizeof res) != sizeof res) { res[0] = res[1] = res[2] = -1; }
            close(p[0]);
            waitpid(pid, &st, 0);
            printf("X %ld status=%d ret=%d flow=%d evals=%d out=", v, WIFEXITED(st) ? WEXITSTATUS(st) : 1000 + WTERMSIG(st), res[0], res[1], res[2]);
            fd = open(cap, O_RDONLY);
            k = 0;
            while (fd >= 0 && (n = read(fd, buf, sizeof buf)) > 0 && k < 4096) { ssize_t i; for (i = 0; i < n && k < 4096; i++, k++) printf("%02x", buf[i]); }
            if (fd >= 0) close(fd);
            unlink(cap);
            printf("\n");
        } else return 2;
    }
    return 0;
}
