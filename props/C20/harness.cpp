// C20 - debug output and assertions are gated exactly by compile-time and runtime levels.
// One probe translation unit (props/C20/probe.c) uses every macro of the family and is compiled once per
// compile-time DEBUG value.  A case = build + script (runtime level / silent / program name changes and
// statement executions); the reference below is the property statement written as a table.
//   enum   : every build x every runtime level x silent on/off x every statement
//   random : random scripts (levels, silent and program name change between statements) on a random build
#include "rcglue.hpp"
#include <cstdio>
#include <fstream>
#include <unistd.h>
using namespace vt;

namespace {

const long kBuilds[] = {0, 1, 2, 3, 4, 5, 9999};
const long kLevels[] = {0, 1, 2, 3, 4, 5, 6, 7, 8, 9, 10, 9998, 9999, 10000, 4294967295L};

enum Kind { DSTMT, IFSTMT, DPRINTFN, PLAIN_D, PLAIN_DPRINTFN, P_DPRINTF_PLAIN, ASSERT_T, ASSERT_F, ASSERT_RT, ASSERT_RF, NOTREACHED_R, REQ_T, REQ_F, REQ_RT, REQ_RF, P_DPRINTF, P_WARN, P_ERROR, P_FATAL };
struct Stmt { Kind kind; long level; const char *macro; const char *func; };
const long NEVER = -1;
const Stmt kStmts[] = {
    {DSTMT, 1, "D_OPTIONS", "s_d_options"}, {DSTMT, 2, "D_OBJ", "s_d_obj"}, {DSTMT, 3, "D_CONF", "s_d_conf"}, {DSTMT, 5, "D_MEM", "s_d_mem"},
    {DSTMT, 9999, "D_STRINGS", "s_d_strings"}, {DSTMT, 9999, "D_PARSE", "s_d_parse"}, {DSTMT, NEVER, "D_NEVER", "s_d_never"},
    {IFSTMT, 1, "D_OPTIONS_IF", "s_if_options"}, {IFSTMT, 2, "D_OBJ_IF", "s_if_obj"}, {IFSTMT, 3, "D_CONF_IF", "s_if_conf"}, {IFSTMT, 5, "D_MEM_IF", "s_if_mem"},
    {IFSTMT, 9999, "D_STRINGS_IF", "s_if_strings"}, {IFSTMT, 9999, "D_PARSE_IF", "s_if_parse"},
    {DPRINTFN, 1, "DPRINTF1", "s_dprintf1"}, {DPRINTFN, 2, "DPRINTF2", "s_dprintf2"}, {DPRINTFN, 3, "DPRINTF3", "s_dprintf3"}, {DPRINTFN, 4, "DPRINTF4", "s_dprintf4"},
    {DPRINTFN, 5, "DPRINTF5", "s_dprintf5"}, {DPRINTFN, 6, "DPRINTF6", "s_dprintf6"}, {DPRINTFN, 7, "DPRINTF7", "s_dprintf7"}, {DPRINTFN, 8, "DPRINTF8", "s_dprintf8"},
    {DPRINTFN, 9, "DPRINTF9", "s_dprintf9"}, {DPRINTFN, 0, "DPRINTF", "s_dprintf"},
    {ASSERT_T, 0, "ASSERT", "v_assert_true"}, {ASSERT_F, 0, "ASSERT", "v_assert_false"}, {ASSERT_RT, 0, "ASSERT_RVAL", "s_assert_rval_true"},
    {ASSERT_RF, 0, "ASSERT_RVAL", "s_assert_rval_false"}, {NOTREACHED_R, 0, "ASSERT_NOTREACHED_RVAL", "s_notreached_rval"},
    {REQ_T, 0, "REQUIRE", "v_require_true"}, {REQ_F, 0, "REQUIRE", "v_require_false"}, {REQ_RT, 0, "REQUIRE_RVAL", "s_require_rval_true"}, {REQ_RF, 0, "REQUIRE_RVAL", "s_require_rval_false"},
    {P_DPRINTF, 0, "libast_dprintf", "s_prim_dprintf"}, {P_WARN, 0, "libast_print_warning", "s_prim_warning"}, {P_ERROR, 0, "libast_print_error", "s_prim_error"},
    {P_FATAL, 0, "libast_fatal_error", "s_prim_fatal"},
    {PLAIN_D, 1, "D_OPTIONS", "s_d_plain"}, {PLAIN_DPRINTFN, 3, "DPRINTF3", "s_dprintf3_plain"}, {P_DPRINTF_PLAIN, 0, "libast_dprintf", "s_prim_dprintf_plain"}};
const int NSTMT = sizeof(kStmts) / sizeof(kStmts[0]);

std::string unhex(const std::string &h) {
    std::string o;
    for (size_t i = 0; i + 1 < h.size(); i += 2) o.push_back((char)strtol(h.substr(i, 2).c_str(), nullptr, 16));
    return o;
}
std::string printable(const std::string &s) {
    std::string o;
    for (unsigned char ch : s) { if (ch == '\n') o += "\\n"; else if (ch < 32 || ch > 126) { char b[8]; snprintf(b, sizeof b, "\\x%02x", ch); o += b; } else o.push_back((char)ch); }
    return o.size() > 300 ? o.substr(0, 300) + "..." : o;
}
// One line that ends with the message text.  What the macro prints in front of it (time stamp, file, line, function)
// is presentation, not part of the statement, and is not checked.
bool is_debug_line(const std::string &out, const std::string &func, const std::string &body, std::string &why) {
    (void)func;
    if (out.size() < body.size() || out.compare(out.size() - body.size(), body.size(), body) != 0) { why = "the output does not end with '" + printable(body) + "'"; return false; }
    if (std::count(out.begin(), out.end(), '\n') != 1) { why = "expected exactly one line"; return false; }
    if (out.find(body.substr(0, body.size() - 1)) != out.size() - body.size()) { why = "message text printed more than once"; return false; }
    return true;
}

struct Model {
    Ctx &ctx;
    long D = 0, R = 0;
    bool S = false;
    std::string prog = "libast";
    explicit Model(Ctx &c) : ctx(c) {}

    void check(int k, long status, long ret, long flow, long evals, const std::string &out, const std::string &where) {
        const Stmt &s = kStmts[k];
        auto bad = [&](const std::string &what) {
            ctx.fail("mismatch", std::string(s.macro) + " (" + s.func + ") " + where + ": " + what + "; status=" + std::to_string(status) + " ret=" + std::to_string(ret) + " flow=" +
                                     std::to_string(flow) + " evals=" + std::to_string(evals) + " output='" + printable(out) + "'");
        };
        auto quiet_run = [&](long want_evals) {       // nothing printed, nothing (or exactly the condition) evaluated, control carries on
            if (status != 0) bad("expected a normal return");
            if (flow != 1) bad("control did not reach the end of the statement's function");
            if (evals != want_evals) bad("argument evaluated " + std::to_string(evals) + " time(s), expected " + std::to_string(want_evals));
            if (!out.empty()) bad("expected no output");
        };
        auto debug_line = [&](const std::string &body) {
            std::string why;
            if (S) { if (out.find(body.substr(0, body.size() - 1)) != std::string::npos) bad("message printed although output is silenced"); return; }   // (the "[time] file | line" prefix is written by the macro itself, not by a message primitive)
            if (!is_debug_line(out, s.func, body, why)) bad("expected one debug line: " + why);
        };
        auto warn_or_fatal = [&](const char *sev, const std::string &tail) {
            if (S) { if (!out.empty()) bad("output although silenced"); return; }
            // one line, from this program (its name), of this severity, naming the failed condition; the exact layout is presentation
            (void)sev;   // which words announce the severity (and whether the program name is shown) is presentation
            if (out.size() < tail.size() || out.compare(out.size() - tail.size(), tail.size(), tail) != 0) bad("expected the diagnostic to end with '" + printable(tail) + "'");
            if (std::count(out.begin(), out.end(), '\n') != 1) bad("expected exactly one line");
        };
        std::string cell = std::string(s.macro);
        switch (s.kind) {
        case DSTMT: case DPRINTFN: {
            bool active = s.kind == DSTMT ? (s.level != NEVER && D >= s.level && R >= s.level) : (D >= 1 && R >= s.level);
            if (!active) { quiet_run(0); ctx.label(cell + ":off"); break; }
            if (status != 0 || flow != 1) bad("expected a normal return");
            if (!S && evals != 1) bad("argument evaluated " + std::to_string(evals) + " time(s), expected 1");
            debug_line(std::string("body-") + s.macro + "-1\n");
            ctx.label(cell + (S ? ":on-silent" : ":on"));
            break;
        }
        case PLAIN_D: case PLAIN_DPRINTFN: {   // the same gates for a message without conversions (no argument to count)
            bool active = s.kind == PLAIN_D ? (D >= s.level && R >= s.level) : (D >= 1 && R >= s.level);
            if (status != 0 || flow != 1) bad("expected a normal return");
            if (!active) { if (!out.empty()) bad("expected no output"); ctx.label(cell + ":plain-off"); break; }
            debug_line(std::string("plain-") + s.macro + "\n");
            ctx.label(cell + (S ? ":plain-on-silent" : ":plain-on"));
            break;
        }
        case P_DPRINTF_PLAIN:
            if (status != 0 || flow != 1) bad("expected a normal return");
            if (S) { if (!out.empty()) bad("output although silenced"); if (ret != 0) bad("silenced call reported characters written"); }
            else { if (out != "plain-message\n") bad("expected 'plain-message\\n'"); if (ret != 14) bad("wrong character count"); }
            ctx.label(cell + (S ? ":plain-silent" : ":plain-prints"));
            break;
        case IFSTMT: { bool active = D >= s.level && R >= s.level; quiet_run(active ? 1 : 0); ctx.label(cell + (active ? ":on" : ":off")); break; }
        case ASSERT_T: case ASSERT_RT: quiet_run(D >= 1 ? 1 : 0); if ((s.kind == ASSERT_RT) && ret != 1) bad("wrong return value"); ctx.label(cell + ":holds"); break;
        case ASSERT_F: case ASSERT_RF: case NOTREACHED_R: {
            std::string tail = s.kind == NOTREACHED_R ? "\n" : "bump() < 0\n";
            if (D == 0) {
                if (s.kind == NOTREACHED_R) { if (status != 0 || flow != 0 || ret != 77 || !out.empty()) bad("compiled out: expected the bare return"); }
                else quiet_run(0);
                ctx.label(cell + ":compiled-out");
            } else if (R == 0) {
                if (status != 0) bad("expected a normal return at runtime level 0");
                if (flow != 0) bad("control carried on past the failed assertion");
                if (s.kind != ASSERT_F && ret != 77) bad("wrong failure value");
                if (s.kind != NOTREACHED_R && evals != 1) bad("condition evaluated " + std::to_string(evals) + " time(s)");
                warn_or_fatal("Warning", tail);
                ctx.label(cell + (S ? ":warns-silent" : ":warns"));
            } else {
                if (status != 255) bad("expected the fatal-error exit");
                warn_or_fatal("FATAL", tail);
                ctx.label(cell + (S ? ":fatal-silent" : ":fatal"));
            }
            break;
        }
        case REQ_T: case REQ_RT: quiet_run(1); if (s.kind == REQ_RT && ret != 1) bad("wrong return value"); ctx.label(cell + ":holds"); break;
        case REQ_F: case REQ_RF:
            if (status != 0) bad("expected a normal return");
            if (flow != 0) bad("control carried on past the failed requirement");
            if (s.kind == REQ_RF && ret != 77) bad("wrong failure value");
            if (evals != 1) bad("condition evaluated " + std::to_string(evals) + " time(s)");
            if (D >= 1 && R >= 1) { debug_line("REQUIRE failed:  bump() < 0\n"); ctx.label(cell + (S ? ":logs-silent" : ":logs")); }
            else { if (!out.empty()) bad("expected no output"); ctx.label(cell + (D ? ":returns-quietly" : ":compiled-out")); }
            break;
        case P_DPRINTF:
            if (status != 0 || flow != 1 || evals != 1) bad("expected a normal return");
            if (S) { if (!out.empty()) bad("output although silenced"); if (ret != 0) bad("silenced call reported characters written"); }
            else { if (out != "message-1\n") bad("expected 'message-1\\n'"); if (ret != 10) bad("wrong character count"); }
            ctx.label(cell + (S ? ":silent" : ":prints"));
            break;
        case P_WARN: case P_ERROR: {
            if (status != 0 || flow != 1 || evals != 1) bad("expected a normal return");
            std::string text = s.kind == P_WARN ? "careful-1\n" : "broken-1\n", sev = s.kind == P_WARN ? "Warning" : "Error";
            if (S) { if (!out.empty()) bad("output although silenced"); }
            else if (out.size() < text.size() || out.compare(out.size() - text.size(), text.size(), text) != 0 ||
                     std::count(out.begin(), out.end(), '\n') != 1) bad("expected one line ending with the message (" + sev + ")");
            ctx.label(cell + (S ? ":silent" : ":prints"));
            break;
        }
        case P_FATAL: {
            if (status != 255) bad("expected the fatal-error exit");
            std::string text = "dead-1\n";
            if (S) { if (!out.empty()) bad("output although silenced"); }
            else if (out.size() < text.size() || out.compare(out.size() - text.size(), text.size(), text) != 0 ||
                     std::count(out.begin(), out.end(), '\n') != 1) bad("expected one line ending with the message");
            ctx.label(cell + (S ? ":silent" : ":prints"));
            break;
        }
        }
    }
};

struct C20 : Harness {
    const char *property() const override { return "C20"; }
    const char *rule() const override { return ""; }
    std::vector<std::string> modes() const override { return {"enum", "random"}; }
    int hang_budget(int tier) const override { return tier ? 600 : 300; }

    void run(const Case &c, Ctx &ctx) override {
        auto &kv = config().kv;
        Model m(ctx);
        std::string script;
        struct X { int k; long D, R; bool S; std::string prog; };
        std::vector<X> xs;
        for (const Op &op : c) {
            long v = op.ints.empty() ? 0 : op.ints[0];
            if (op.name == "build") m.D = v;
            else if (op.name == "L") { m.R = v & 0xffffffffL; script += "L " + std::to_string(m.R) + "\n"; }
            else if (op.name == "Q") { m.S = v != 0; script += "Q " + std::to_string(v != 0) + "\n"; }
            else if (op.name == "N") { std::string n = op.strs.empty() || op.strs[0].empty() ? "p" : op.strs[0]; m.prog = n; script += "N " + n + "\n"; }
            else if (op.name == "X") { int k = (int)(((v % NSTMT) + NSTMT) % NSTMT); script += "X " + std::to_string(k) + "\n"; xs.push_back({k, m.D, m.R, m.S, m.prog}); }
        }
        std::string key = "probe" + std::to_string(m.D);
        VT_CHECK(ctx, kv.count(key), "harness", "no probe for DEBUG=" << m.D);
        std::string path = config().scratch_dir + "/c20-script-" + std::to_string((long)getpid());
        { std::ofstream f(path); f << script; }
        std::string cmd = kv[key] + " " + path + " " + config().scratch_dir + " 2>/dev/null";
        FILE *p = popen(cmd.c_str(), "r");
        VT_CHECK(ctx, p != nullptr, "harness", "popen failed");
        std::string outp; char buf[8192]; size_t n;
        while ((n = fread(buf, 1, sizeof buf, p)) > 0) outp.append(buf, n);
        int st = pclose(p);
        unlink(path.c_str());
        VT_CHECK(ctx, st == 0, "harness", "probe ended with status " << st);
        std::vector<std::string> lines;
        for (size_t pos = 0; pos < outp.size();) { size_t e = outp.find('\n', pos); if (e == std::string::npos) e = outp.size(); lines.push_back(outp.substr(pos, e - pos)); pos = e + 1; }
        VT_CHECK(ctx, !lines.empty() && lines[0] == "BUILD " + std::to_string(m.D), "harness", "probe reports '" << (lines.empty() ? "" : lines[0]) << "', wanted build " << m.D);
        VT_CHECK(ctx, lines.size() == xs.size() + 1, "harness", "probe printed " << lines.size() << " lines for " << xs.size() << " statements");
        for (size_t i = 0; i < xs.size(); i++) {
            ctx.step((int)i);
            ctx.progress("build=" + std::to_string(xs[i].D) + " level=" + std::to_string(xs[i].R) + " silent=" + std::to_string(xs[i].S) + " stmt=" + kStmts[xs[i].k].func);
            long k, status, ret, flow, evals; char hex[8300] = "";
            int got = sscanf(lines[i + 1].c_str(), "X %ld status=%ld ret=%ld flow=%ld evals=%ld out=%8200s", &k, &status, &ret, &flow, &evals, hex);
            VT_CHECK(ctx, got >= 5 && k == xs[i].k, "harness", "unparsable trace line: " << lines[i + 1]);
            m.D = xs[i].D; m.R = xs[i].R; m.S = xs[i].S; m.prog = xs[i].prog;
            std::string where = "[DEBUG=" + std::to_string(m.D) + ", runtime level " + std::to_string(m.R) + (m.S ? ", silent" : "") + "]";
            m.check(xs[i].k, status, ret, flow, evals, unhex(hex), where);
            if (i % 11 == 3) ctx.sample(std::string(kStmts[xs[i].k].macro) + " " + where + " -> status=" + std::to_string(status) + " evals=" + std::to_string(evals) + " flow=" + std::to_string(flow) + " out='" + printable(unhex(hex)).substr(0, 80) + "'");
        }
        ctx.evals((long)xs.size());
        ctx.nontrivial_count((long)xs.size());
        ctx.ok();
    }

    static Op mk(const std::string &n, std::vector<long> ints, std::vector<std::string> strs = {}) { Op o; o.name = n; o.ints = std::move(ints); o.strs = std::move(strs); return o; }

    bool search(const std::string &mode, const std::function<bool(const Case &)> &try_case) override {
        if (mode == "enum") {
            long nw = atol(config().kv.count("nworkers") ? config().kv["nworkers"].c_str() : "1");
            long idx = 0;
            bool ok = true;
            for (long D : kBuilds) for (long R : kLevels) for (long S = 0; S < 2; S++, idx++) {
                if (idx % nw != config().worker % nw) continue;
                Case c{mk("build", {D}), mk("L", {R}), mk("Q", {S})};
                for (int k = 0; k < NSTMT; k++) c.push_back(mk("X", {k}));
                ok = try_case(c) && ok;
            }
            return ok;
        }
        auto g = rc::gen::exec([]() {
            Case c{mk("build", {*rc::gen::elementOf(std::vector<long>(std::begin(kBuilds), std::end(kBuilds)))})};
            long n = *sized_len(60);
            for (long i = 0; i < n; i++) {
                long w = *range(0, 99);
                if (w < 20) c.push_back(mk("L", {*rc::gen::elementOf(std::vector<long>(std::begin(kLevels), std::end(kLevels)))}));
                else if (w < 28) c.push_back(mk("Q", {*range(0, 1)}));
                else if (w < 33) c.push_back(mk("N", {}, {*rc::gen::element<std::string>("probe", "libast", "x", "a-much-longer-program-name")}));
                else c.push_back(mk("X", {*range(0, NSTMT - 1)}));
            }
            return c;
        });
        return rc_search("C20 random configuration scripts", g, try_case);
    }
};
}  // namespace
vt::Harness *vt::make_harness() { return new C20(); }
