/* C20 needs no in-process access to libast: everything runs in the per-DEBUG probe programs. */
int c20_unused(void) { return 0; }
