/* C18 shim: call a built-in hash on a key placed at a chosen alignment, the key's last byte flush
 * against the ASan redzone of an exact-size heap block. */
#include "config.h"
#include <libast.h>

int c18_init(void) { libast_debug_level = 0; return 1; }
/* fn: 0 jenkins, 1 jenkinsLE, 2 jenkins32 (len in 32-bit words, align forced to a multiple of 4),
 *     3 rotating, 4 one_at_a_time, 5 fnv */
unsigned c18_hash(int fn, const unsigned char *data, unsigned long nbytes, unsigned align, unsigned seed)
{
    unsigned char *block, *key;
    unsigned r;
    if (fn == 2) align &= ~3u;
    block = (unsigned char *) malloc(align + nbytes + (align + nbytes == 0));
    key = block + align;
    if (nbytes) memcpy(key, data, nbytes);
    switch (fn) {
    case 0: r = spifhash_jenkins(key, (spif_uint32_t) nbytes, seed); break;
    case 1: r = spifhash_jenkinsLE(key, (spif_uint32_t) nbytes, seed); break;
    case 2: r = spifhash_jenkins32(key, (spif_uint32_t) (nbytes / 4), seed); break;
    case 3: r = spifhash_rotating(key, (spif_uint32_t) nbytes, seed); break;
    case 4: r = spifhash_one_at_a_time(key, (spif_uint32_t) nbytes, seed); break;
    default: r = spifhash_fnv(key, (spif_uint32_t) nbytes, seed); break;
    }
    free(block);
    return r;
}
