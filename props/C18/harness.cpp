// C18 - built-in hashes equal their published definitions, read exactly `length` bytes, ignore placement.
// The references below are written from the published algorithms (Bob Jenkins' lookup2 hash()/hash2(),
// his "rotating" and "one-at-a-time" hashes, FNV-1a), not from builtin_hashes.c.
#include "../../engine/rcglue.hpp"
#include "../../engine/latrack.hpp"

extern "C" { int c18_init(void); unsigned c18_hash(int, const unsigned char *, unsigned long, unsigned, unsigned); }
using namespace vt;
namespace {
typedef uint32_t u32;
const u32 kInit = 0xf721b64dU;  // libast's arbitrary initial value for a and b (lookup2 says "any 32-bit value")
const char *kFn[] = {"jenkins", "jenkinsLE", "jenkins32", "rotating", "one_at_a_time", "fnv"};

inline void mix(u32 &a, u32 &b, u32 &c) {   // lookup2 mix()
    a -= b; a -= c; a ^= (c >> 13);
    b -= c; b -= a; b ^= (a << 8);
    c -= a; c -= b; c ^= (b >> 13);
    a -= b; a -= c; a ^= (c >> 12);
    b -= c; b -= a; b ^= (a << 16);
    c -= a; c -= b; c ^= (b >> 5);
    a -= b; a -= c; a ^= (c >> 3);
    b -= c; b -= a; b ^= (a << 10);
    c -= a; c -= b; c ^= (b >> 15);
}
u32 le32(const unsigned char *k) { return (u32)k[0] | ((u32)k[1] << 8) | ((u32)k[2] << 16) | ((u32)k[3] << 24); }
u32 ref_lookup2(const unsigned char *k, u32 length, u32 initval) {   // hash(): byte-wise, little-endian packing
    u32 a = kInit, b = kInit, c = initval, len = length;
    while (len >= 12) { a += le32(k); b += le32(k + 4); c += le32(k + 8); mix(a, b, c); k += 12; len -= 12; }
    c += length;
    // the last 11 bytes: c's lowest byte is reserved for the length
    if (len >= 11) c += (u32)k[10] << 24;
    if (len >= 10) c += (u32)k[9] << 16;
    if (len >= 9) c += (u32)k[8] << 8;
    if (len >= 8) b += (u32)k[7] << 24;
    if (len >= 7) b += (u32)k[6] << 16;
    if (len >= 6) b += (u32)k[5] << 8;
    if (len >= 5) b += k[4];
    if (len >= 4) a += (u32)k[3] << 24;
    if (len >= 3) a += (u32)k[2] << 16;
    if (len >= 2) a += (u32)k[1] << 8;
    if (len >= 1) a += k[0];
    mix(a, b, c);
    return c;
}
u32 ref_hash2(const u32 *k, u32 length, u32 initval) {   // hash2(): key is an array of 32-bit words
    u32 a = kInit, b = kInit, c = initval, len = length;
    while (len >= 3) { a += k[0]; b += k[1]; c += k[2]; mix(a, b, c); k += 3; len -= 3; }
    c += length;
    if (len == 2) { b += k[1]; a += k[0]; } else if (len == 1) a += k[0];
    mix(a, b, c);
    return c;
}
u32 ref_rotating(const unsigned char *k, u32 len, u32 seed) {
    u32 h = seed ? seed : kInit;
    for (u32 i = 0; i < len; i++) h = (h << 4) ^ (h >> 28) ^ k[i];
    return h ^ (h >> 10) ^ (h >> 20);
}
u32 ref_oaat(const unsigned char *k, u32 len, u32 seed) {
    u32 h = seed ? seed : kInit;
    for (u32 i = 0; i < len; i++) { h += k[i]; h += h << 10; h ^= h >> 6; }
    h += h << 3; h ^= h >> 11; h += h << 15;
    return h;
}
u32 ref_fnv1a(const unsigned char *k, u32 len, u32 seed) {
    u32 h = seed ? seed : 0x811c9dc5U;
    for (u32 i = 0; i < len; i++) { h ^= k[i]; h *= 0x01000193U; }
    return h;
}
u32 reference(int fn, const std::string &key, u32 seed) {
    const unsigned char *k = (const unsigned char *)key.data();
    switch (fn) {
    case 0: case 1: return ref_lookup2(k, (u32)key.size(), seed);
    case 2: { std::vector<u32> w(key.size() / 4 + 1); for (size_t i = 0; i < key.size() / 4; i++) w[i] = le32(k + 4 * i); return ref_hash2(w.data(), (u32)(key.size() / 4), seed); }
    case 3: return ref_rotating(k, (u32)key.size(), seed);
    case 4: return ref_oaat(k, (u32)key.size(), seed);
    default: return ref_fnv1a(k, (u32)key.size(), seed);
    }
}
std::string content(int pattern, size_t n, u32 rnd) {
    std::string s(n, '\0');
    for (size_t i = 0; i < n; i++) {
        switch (pattern) { case 0: s[i] = 0; break; case 1: s[i] = (char)0xff; break; case 2: s[i] = (char)(i + 1); break;
        default: rnd = rnd * 1664525u + 1013904223u; s[i] = (char)(rnd >> 24); }
    }
    return s;
}
struct Runner {
    Ctx &ctx;
    long evals = 0;
    std::set<uint64_t> classes;
    explicit Runner(Ctx &c) : ctx(c) {}
    void one(int fn, const std::string &key0, unsigned align, u32 seed) {
        std::string key = key0;
        if (fn == 2) { key.resize(key.size() / 4 * 4); align &= ~3u; }
        evals++;
        u32 got = LA(c18_hash(fn, (const unsigned char *)key.data(), key.size(), align, seed));
        u32 want = reference(fn, key, seed);
        VT_CHECK(ctx, got == want, "mismatch", "value:" << kFn[fn] << "; " << kFn[fn] << "(len=" << key.size() << ", align=" << align << ", seed=0x" << std::hex << seed << ") = 0x" << got << " expected 0x" << want << std::dec << " key=" << hexenc(key.substr(0, 48)));
        if (!key.empty()) {
            int sc = seed == 0 ? 0 : seed == 1 ? 1 : seed == 0xffffffffU ? 2 : 3;
            classes.insert(((uint64_t)fn << 32) | ((uint64_t)(key.size() % 12) << 16) | ((uint64_t)align << 8) | (uint64_t)sc);
        }
        ctx.label(std::string("fn:") + kFn[fn]);
        if (seed == 0) ctx.label("seed:0");
        if (key.size() > 12) ctx.label("tail:" + std::to_string(key.size() % 12) + "-past-a-full-block");
        ctx.label("align:" + std::to_string(align));
    }
    // value must not depend on where the bytes live (metamorphic), and LE == byte-wise on this host
    void placement(int fn, const std::string &key, u32 seed) {
        u32 first = 0;
        for (unsigned a = 0; a < 8; a++) {
            if (fn == 2 && (a & 3)) continue;
            evals++;
            std::string k2 = key;
            if (fn == 2) k2.resize(k2.size() / 4 * 4);
            u32 v = LA(c18_hash(fn, (const unsigned char *)k2.data(), k2.size(), a, seed));
            if (a == 0) first = v;
            VT_CHECK(ctx, v == first, "mismatch", "placement:" << kFn[fn] << "; value differs between alignment 0 and " << a << " for len " << k2.size());
        }
        if (fn == 0) {
            u32 le = LA(c18_hash(1, (const unsigned char *)key.data(), key.size(), 0, seed));
            VT_CHECK(ctx, le == first, "mismatch", "jenkins-vs-jenkinsLE; differ for len " << key.size());
            ctx.label("jenkins==jenkinsLE");
        }
    }
    void batch(const Op &) {
        static const u32 seeds[] = {0, 1, 0xffffffffU, 0x12345679U};
        for (int fn = 0; fn < 6; fn++) for (size_t len = 0; len <= 40; len++) for (unsigned al = 0; al < 8; al++) for (int pat = 0; pat < 4; pat++) for (u32 seed : seeds) {
            if (fn == 2 && ((al & 3) || (len & 3))) continue;
            std::string key = content(pat, len, (u32)(len * 31 + al + (u32)pat * 7 + seed));
            ctx.progress(op_to_text(mk("hash", {fn, (long)al, (long)seed}, {key})));
            one(fn, key, al, seed);
        }
        for (int fn = 0; fn < 6; fn++) for (size_t len = 0; len <= 40; len += 1) { std::string key = content(3, len, (u32)len); ctx.progress(op_to_text(mk("place", {fn, 7}, {key}))); placement(fn, key, 7); }
    }
};
rc::Gen<Case> gen_case() {
    return rc::gen::exec([]() {
        int fn = (int)*range(0, 5);
        long len = *range(0, 9) < 7 ? *range(0, 64) : *range(65, 4096);
        std::string key;
        key.reserve((size_t)len);
        u32 r = (u32)*range(0, 0x7fffffff);
        int pat = (int)*range(0, 3);
        key = content(pat, (size_t)len, r);
        static const long seeds[] = {0, 1, 0xffffffffL, -1};
        long seed = *rc::gen::elementOf(std::vector<long>(seeds, seeds + 4));
        if (seed < 0) seed = *range(0, 0xffffffffL);
        Case c;
        if (*range(0, 3) == 0) c.push_back(mk("place", {fn, seed}, {key}));
        else c.push_back(mk("hash", {fn, *range(0, 7), seed}, {key}));
        return c;
    });
}
struct C18 : Harness {
    const char *property() const override { return "C18"; }
    const char *rule() const override { return ""; }
    std::vector<std::string> modes() const override { return {"enum", "random"}; }
    void run(const Case &c, Ctx &ctx) override {
        ht_install();
        c18_init();
        Runner r(ctx);
        bool is_batch = false;
        for (size_t i = 0; i < c.size(); i++) {
            ctx.step((int)i);
            const Op &op = c[i];
            if (op.name == "batch") { is_batch = true; r.batch(op); }
            else if (op.name == "hash") r.one((int)(((op.i(0) % 6) + 6) % 6), op.s(0), (unsigned)(op.i(1) & 7), (u32)op.i(2));
            else if (op.name == "place") r.placement((int)(((op.i(0) % 6) + 6) % 6), op.s(0), (u32)op.i(1));
            else ctx.fail("harness", "unknown op " + op.name);
        }
        if (!ht_overflowed() && ht_live_count() != 0) ctx.fail("leak", "heap-not-balanced; hash functions allocated memory");
        if (is_batch) { ctx.evals(r.evals); ctx.nontrivial_count((long)r.classes.size()); }
        else if (!r.classes.empty() || (!c.empty() && !c[0].s(0).empty())) ctx.nontrivial();
        ctx.ok();
    }
    bool search(const std::string &mode, const std::function<bool(const Case &)> &try_case) override {
        if (mode == "enum") return config().worker == 0 ? try_case({mk("batch")}) : true;
        return rc_search("C18 random keys", gen_case(), try_case);
    }
};
}  // namespace
vt::Harness *vt::make_harness() { return new C18(); }
