// C15 - the debug memory tracker mirrors the live allocation set exactly.
//   table   : histories of the five tracked operations over a pointer pool, on a harness-owned arena
//             (addresses reused at once, realloc moves on request, stale/foreign pointers tolerated),
//             table read through the accessor hook and compared with a reference set after every op
//   objects : C06 ownership programs on the tracking build at runtime level 5; the table must be empty
//             once everything is deleted
//   macros  : the same MALLOC/CALLOC/REALLOC/FREE/STRDUP program run on a DEBUG=0 and a DEBUG=5 build,
//             at runtime levels below and at the memory-debugging level; observable traces must agree
#include "../C06/interp.hpp"
#include <map>
#include <set>
#include <cstdio>
#include <fstream>
#include <unistd.h>
using namespace vt;

extern "C" {
int c15_arena(int); int c15_realloc_policy(int); int c15_arena_live(long, long); long c15_ignored_free(void); long c15_unknown_realloc(void);
long c15_foreign(int); int c15_level(long);
long c15_malloc(const char *, long, unsigned long, long); long c15_calloc(const char *, long, unsigned long, long, long);
long c15_realloc(const char *, long, unsigned long, long, long); int c15_free(const char *, long, unsigned long, long);
long c15_strdup(const char *, long, unsigned long, const char *, long);
int c15_fill(long, long, int); long c15_verify(long, long, int); long c15_verify_zero(long, long); int c15_equal_text(long, const char *, long);
long c15_table_count(void); int c15_table_get(long, long *, long *, char *, long *, unsigned long *);
long c15_dump(const char *, long *, long *);
}

namespace {

struct Block { long size; std::string file; unsigned long line; bool tracked; int seed; };

struct Table {
    Ctx &ctx;
    std::map<long, Block> live;      // address -> block
    std::vector<long> stale;         // addresses that were live once (freed or moved away from)
    int nseed = 0;
    long just_released = 0;
    bool was_empty_after_use = false, used = false, interesting = false;
    explicit Table(Ctx &c) : ctx(c) {}

    static long levelOf(long sel, bool touches_tracked) {
        // 0: 5, 1: above the memory level, 2: 0, 3: just below; a tracked block is only ever handled with tracking active
        switch (sel & 3) { case 0: return 5; case 1: return 6; case 2: return touches_tracked ? 5 : 0; default: return touches_tracked ? 9999 : 4; }
    }
    long tracked_count() const { long n = 0; for (auto &kv : live) n += kv.second.tracked; return n; }

    void compare(const char *after) {
        long n = c15_table_count();
        std::map<long, int> seen;
        VT_CHECK(ctx, n == tracked_count(), "mismatch", after << "; table holds " << n << " record(s), " << tracked_count() << " tracked block(s) are live");
        for (long i = 0; i < n; i++) {
            long ptr, size, term; unsigned long line; char file[32];
            c15_table_get(i, &ptr, &size, file, &term, &line);
            VT_CHECK(ctx, term == 1, "mismatch", after << "; record " << i << " has an unterminated file name");
            auto it = live.find(ptr);
            VT_CHECK(ctx, it != live.end() && it->second.tracked, "mismatch", after << "; record " << i << " names address " << ptr << " which is not a live tracked block");
            VT_CHECK(ctx, ++seen[ptr] == 1, "mismatch", after << "; two records for one block");
            const Block &b = it->second;
            VT_CHECK(ctx, size == b.size, "mismatch", after << "; record size " << size << " != last requested size " << b.size);
            VT_CHECK(ctx, std::string(file) == b.file.substr(0, 20), "mismatch", after << "; record file '" << file << "' != '" << b.file.substr(0, 20) << "'");
            VT_CHECK(ctx, line == (b.line & 0xffffffffUL), "mismatch", after << "; record line " << line << " != " << b.line);
        }
        for (auto &kv : live) VT_CHECK(ctx, c15_arena_live(kv.first, kv.second.size) == 1, "mismatch", after << "; a block the history still owns is not live in the allocator with its requested size (" << kv.second.size << ")");
        // (the table's own array lives in the same arena and may take over a released address later, so only the
        // block released by this very operation is checked)
        if (just_released && !live.count(just_released)) VT_CHECK(ctx, c15_arena_live(just_released, 0) == 0, "mismatch", after << "; the released block is still live in the allocator");
        just_released = 0;
        if (used && n == 0) was_empty_after_use = true;
    }

    // pointer selection: resolved against the current pool
    long pick(long sel, std::string &what) {
        long kind = sel & 3, idx = (sel >> 2) & 0xffff;
        if (kind <= 1 && !live.empty()) { auto it = live.begin(); std::advance(it, idx % (long)live.size()); what = it->second.tracked ? "live-tracked" : "live-untracked"; return it->first; }
        if (kind == 2 && !stale.empty()) {
            long a = stale[(size_t)(idx % (long)stale.size())];
            if (live.count(a)) { what = live[a].tracked ? "live-tracked" : "live-untracked"; ctx.label("stale-address-now-reused"); return a; }
            // the table's own array lives in the same arena: an address it has taken over is not ours to hand back
            if (c15_arena_live(a, 0) != 0) { ctx.label("stale-address-now-owned-by-the-table"); what = "null"; return 0; }
            what = "stale"; return a;
        }
        if (kind == 3 && (idx & 1)) { what = "foreign"; return c15_foreign((int)(idx >> 1)); }
        what = "null"; return 0;
    }
    void add(long addr, long size, const Op &op, bool tracked, const char *how) {
        VT_CHECK(ctx, addr != 0, "mismatch", how << "; returned NULL");
        VT_CHECK(ctx, !live.count(addr), "harness", "allocator handed out a live address");
        for (long a : stale) if (a == addr) { ctx.label("address-reused"); break; }
        Block b{size, op.strs.empty() ? std::string() : op.strs[0], (unsigned long)op.ints[1], tracked, ++nseed};
        live[addr] = b;
        if (tracked) { used = true; if (was_empty_after_use) ctx.label("grow-after-empty"); }
        if (b.file.size() > 20) ctx.label("file-name-longer-than-20"); else if (b.file.size() == 20) ctx.label("file-name-exactly-20");
        if (b.line > 0x7fffffffUL) ctx.label("line-above-2^31");
    }
    bool is_middle(long addr) {
        // is this block's record somewhere before the last record?
        long n = c15_table_count();
        for (long i = 0; i + 1 < n; i++) { long ptr, size, term; unsigned long line; char file[32]; c15_table_get(i, &ptr, &size, file, &term, &line); if (ptr == addr) return true; }
        return false;
    }
    void release(long addr) {
        auto it = live.find(addr);
        if (it == live.end()) return;
        if (it->second.tracked) { if (is_middle(addr)) { ctx.label("record-removed-from-the-middle"); interesting = true; } else ctx.label("record-removed-from-the-end"); }
    }

    void run(const Case &c) {
        c15_arena(1);
        compare("start");
        for (size_t at = 1; at < c.size(); at++) {
            const Op &op = c[at];
            ctx.step((int)at);
            const std::string file = op.strs.empty() ? "" : op.strs[0];
            auto I = [&](size_t k) { return k < op.ints.size() ? op.ints[k] : 0L; };
            unsigned long line = (unsigned long)I(1);
            if (op.name == "malloc" || op.name == "calloc" || op.name == "strdup") {
                long lvl = levelOf(I(0), false);
                c15_level(lvl);
                long addr, size;
                if (op.name == "malloc") { size = I(2); addr = c15_malloc(file.data(), (long)file.size(), line, size); }
                else if (op.name == "calloc") { size = I(2) * I(3); addr = c15_calloc(file.data(), (long)file.size(), line, I(2), I(3)); }
                else { const std::string t = op.strs.size() > 1 ? op.strs[1] : ""; size = (long)t.size() + 1; addr = c15_strdup(file.data(), (long)file.size(), line, t.data(), (long)t.size());
                       VT_CHECK(ctx, addr && c15_equal_text(addr, t.data(), (long)t.size()), "mismatch", "strdup; copy differs from the source"); }
                add(addr, size, op, lvl >= 5, op.name.c_str());
                if (op.name == "calloc") VT_CHECK(ctx, c15_verify_zero(addr, size) < 0, "mismatch", "calloc; block not zero-filled");
                if (size == 0) ctx.label("size-0-block");
                c15_fill(addr, size, live[addr].seed);
                ctx.label(lvl >= 5 ? "alloc:tracking-active" : "alloc:level-below-memory-debugging");
            } else if (op.name == "free") {
                std::string what;
                long addr = pick(I(2), what);
                bool tr = live.count(addr) && live[addr].tracked;
                c15_level(levelOf(I(0), tr));
                release(addr);
                long before = c15_table_count();
                c15_free(file.data(), (long)file.size(), line, addr);
                ctx.label("free:" + what);
                if (live.count(addr)) { live.erase(addr); { stale.push_back(addr); just_released = addr; } }
                else VT_CHECK(ctx, c15_table_count() == before, "mismatch", "free of a " << what << " pointer changed the table");
                if (what == "stale" || what == "foreign") interesting = true;
            } else if (op.name == "realloc") {
                std::string what;
                long addr = pick(I(2), what), size = I(3);
                bool tr = live.count(addr) && live[addr].tracked;
                long lvl = levelOf(I(0), tr);
                c15_level(lvl);
                c15_realloc_policy((int)(I(4) & 1));
                if (size == 0) release(addr);
                long r = c15_realloc(file.data(), (long)file.size(), line, addr, size);
                ctx.label("realloc:" + what + (size == 0 ? ":to-zero" : ""));
                if (addr == 0) {                       // realloc of NULL allocates
                    add(r, size, op, lvl >= 5, "realloc(NULL)");
                    c15_fill(r, size, live[r].seed);
                } else if (live.count(addr)) {
                    Block b = live[addr];
                    if (size == 0) {                   // realloc to size 0 frees
                        VT_CHECK(ctx, r == 0, "mismatch", "realloc to size 0 returned a block");
                        live.erase(addr); { stale.push_back(addr); just_released = addr; }
                    } else {
                        VT_CHECK(ctx, r != 0, "mismatch", "realloc returned NULL");
                        long keep = std::min(size, b.size);
                        long bad = c15_verify(r, keep, b.seed);
                        VT_CHECK(ctx, bad < 0, "mismatch", "realloc; contents changed at byte " << bad);
                        live.erase(addr);
                        if (r != addr) { { stale.push_back(addr); just_released = addr; } ctx.label(b.tracked ? "realloc-moved-a-tracked-block" : "realloc-moved"); interesting = true; }
                        else ctx.label("realloc-in-place");
                        VT_CHECK(ctx, !live.count(r), "harness", "allocator handed out a live address");
                        b.size = size; b.seed = ++nseed;
                        if (b.tracked) { b.file = file; b.line = line; }
                        live[r] = b;
                        c15_fill(r, size, b.seed);
                    }
                } else {                               // unknown pointer: the table must not change; whatever comes back is not tracked
                    interesting = true;
                    if (r) { VT_CHECK(ctx, !live.count(r), "harness", "allocator handed out a live address"); Block b{size, file, line, false, ++nseed}; live[r] = b; c15_fill(r, size, b.seed); }
                }
            } else if (op.name == "dump") {
                long total = 0, lines = 0, sum = 0;
                c15_level(5);
                long n = c15_dump(config().scratch_dir.c_str(), &total, &lines);
                VT_CHECK(ctx, n != -2, "harness", "no scratch file");
                for (auto &kv : live) if (kv.second.tracked) sum += kv.second.size;
                // the wording of the dump is presentation: if its two summary lines are not found the textual view is simply not judged
                if (n >= 0) VT_CHECK(ctx, n == tracked_count(), "mismatch", "dump announces " << n << " pointers, " << tracked_count() << " tracked blocks are live");
                if (total >= 0) VT_CHECK(ctx, total == sum, "mismatch", "dump announces " << total << " bytes, live tracked blocks hold " << sum);
                ctx.label(n >= 0 && total >= 0 ? "dump" : "dump:summary-lines-not-recognised");
            }
            compare((op.name + " (step " + std::to_string(at) + ")").c_str());
        }
        // release everything through the tracked interface: the table must end empty
        c15_level(5);
        while (!live.empty()) {
            long addr = live.begin()->first;
            c15_free("end", 3, 1, addr);
            live.erase(addr); { stale.push_back(addr); just_released = addr; }
            compare("final free");
        }
        VT_CHECK(ctx, c15_table_count() == 0, "mismatch", "table not empty after every block was freed");
        if (interesting) ctx.nontrivial();
        ctx.ok();
    }
};

// ---------------------------------------------------------------- macros
std::string run_probe(Ctx &ctx, const std::string &exe, const std::string &script, int level, int &status) {
    std::string cmd = "ASAN_OPTIONS=detect_leaks=0:exitcode=99:allocator_may_return_null=1 " + exe + " " + script + " " + std::to_string(level) + " 2>/dev/null";
    FILE *p = popen(cmd.c_str(), "r");
    std::string out;
    if (!p) { status = -1; return out; }
    char buf[4096];
    size_t n;
    while ((n = fread(buf, 1, sizeof buf, p)) > 0) out.append(buf, n);
    status = pclose(p);
    return out;
}

struct C15 : Harness {
    const char *property() const override { return "C15"; }
    const char *rule() const override { return ""; }
    std::vector<std::string> modes() const override { return {"table", "objects", "macros"}; }

    void run_macros(const Case &c, Ctx &ctx) {
        auto &kv = config().kv;
        VT_CHECK(ctx, kv.count("probe0") && kv.count("probe5"), "harness", "probe programs not supplied");
        std::string script;
        bool live[8] = {false};
        for (size_t at = 1; at < c.size(); at++) {
            const Op &op = c[at];
            auto I = [&](size_t k) { return k < op.ints.size() ? op.ints[k] : 0L; };
            int v = (int)(I(0) & 7);
            if (op.name == "M") { script += "M " + std::to_string(v) + " " + std::to_string(I(1)) + "\n"; live[v] = true; }
            else if (op.name == "C") { script += "C " + std::to_string(v) + " " + std::to_string(I(1) & 3) + " " + std::to_string(I(2)) + "\n"; live[v] = true; }
            else if (op.name == "R") {
                long sz = I(1);
                if (!live[v] && sz == 0) { ctx.label("excluded:REALLOC(NULL,0)"); continue; }   // the one corner where C leaves realloc's answer open
                script += "R " + std::to_string(v) + " " + std::to_string(sz) + "\n";
                ctx.label(!live[v] ? "REALLOC-of-NULL" : sz == 0 ? "REALLOC-to-0" : "REALLOC-resize");
                live[v] = sz != 0;
            } else if (op.name == "O") { script += "O " + std::to_string(v) + "\n"; ctx.label("CALLOC-byte-count-overflows"); live[v] = false;
            } else if (op.name == "F") { script += "F " + std::to_string(v) + "\n"; ctx.label(live[v] ? "FREE-live" : "FREE-NULL"); live[v] = false; }
            else if (op.name == "S") { std::string t = op.strs.empty() ? "" : op.strs[0]; script += "S " + std::to_string(v) + " " + (t.empty() ? "-" : t) + "\n"; live[v] = true; }
        }
        std::string path = config().scratch_dir + "/c15-script-" + std::to_string((long)getpid());
        { std::ofstream f(path); f << script; }
        struct Run { const char *exe; int level; const char *name; } runs[] = {
            {"probe0", 0, "DEBUG=0 level 0"}, {"probe0", 5, "DEBUG=0 level 5"}, {"probe5", 0, "DEBUG=5 level 0"}, {"probe5", 4, "DEBUG=5 level 4"}, {"probe5", 5, "DEBUG=5 level 5"}};
        std::string ref;
        for (auto &r : runs) {
            int st = 0;
            std::string out = run_probe(ctx, kv[r.exe], path, r.level, st), plain;
            if (st != 0) unlink(path.c_str());
            VT_CHECK(ctx, st == 0, "crash", "macro program on the " << r.name << " build ended with status " << st << "; script: " << script);
            // T lines: tracker count vs live variables (tracking active only)
            size_t pos = 0; int tl = 0;
            while (pos < out.size()) {
                size_t e = out.find('\n', pos); if (e == std::string::npos) e = out.size();
                std::string ln = out.substr(pos, e - pos); pos = e + 1;
                if (ln.rfind("T ", 0) == 0) { unsigned long cnt; int lv; tl++; if (sscanf(ln.c_str(), "T %lu %d", &cnt, &lv) == 2 && (long)cnt != lv) { unlink(path.c_str()); ctx.fail("mismatch", std::string("tracker count ") + ln + " differs from the number of live variables; script: " + script); return; } }
                else plain += ln + "\n";
            }
            if (r.level >= 5 && std::string(r.exe) == "probe5") { VT_CHECK(ctx, tl > 0, "harness", "tracking build printed no table lines"); ctx.label("tracking-on-run"); }
            if (ref.empty()) { ref = plain; VT_CHECK(ctx, plain.find("E |") != std::string::npos, "harness", "reference trace incomplete"); }
            else if (plain != ref) { unlink(path.c_str()); ctx.fail("mismatch", std::string("trace on the ") + r.name + " build differs from DEBUG=0 level 0; script: " + script + " ref: " + ref + " got: " + plain); return; }
        }
        unlink(path.c_str());
        ctx.nontrivial();
        ctx.ok();
    }

    void run(const Case &c, Ctx &ctx) override {
        if (c.empty()) { ctx.ok(); return; }
        if (c[0].name == "table") { Table t(ctx); t.run(c); }
        else if (c[0].name == "macros") run_macros(c, ctx);
        else {
            c15_arena(0);
            c06::Interp in(ctx);
            in.oracle = 1;
            Case body(c.begin() + (c[0].name == "objects" ? 1 : 0), c.end());
            in.run(body);
        }
    }

    static rc::Gen<std::string> gen_file() {
        return rc::gen::exec([]() {
            long n = *rc::gen::weightedOneOf<long>({{4, range(0, 12)}, {3, range(18, 23)}, {1, range(24, 60)}});
            std::string s;
            for (long i = 0; i < n; i++) s.push_back(*rc::gen::elementOf(std::string("abcdefXYZ01_./-")));
            return s;
        });
    }
    static rc::Gen<long> gen_line() { return rc::gen::weightedOneOf<long>({{5, range(0, 5000)}, {1, rc::gen::element<long>(0x7fffffffL, 0x80000000L, 0xffffffffL, 65535, 65536)}}); }
    static rc::Gen<long> gen_size() { return rc::gen::weightedOneOf<long>({{1, rc::gen::just<long>(0)}, {6, range(1, 64)}, {2, range(65, 700)}, {1, rc::gen::element<long>(15, 16, 17, 4096, 5000)}}); }
    static rc::Gen<Op> gen_table_op() {
        return rc::gen::exec([]() {
            Op op;
            long k = *range(0, 99);
            long lvl = *rc::gen::weightedOneOf<long>({{7, range(0, 1)}, {2, range(2, 3)}});
            long line = *gen_line();
            op.strs.push_back(*gen_file());
            if (k < 22) { op.name = "malloc"; op.ints = {lvl, line, *gen_size()}; }
            else if (k < 32) { op.name = "calloc"; op.ints = {lvl, line, *range(0, 12), *rc::gen::element<long>(1, 4, 8, 24)}; }
            else if (k < 42) { op.name = "strdup"; op.ints = {lvl, line}; op.strs.push_back(*text_over("abc xyz%\\\x01\xff", 40)); }
            else if (k < 70) { op.name = "realloc"; op.ints = {lvl, line, *range(0, 1 << 12), *gen_size(), *range(0, 1)}; }
            else if (k < 96) { op.name = "free"; op.ints = {lvl, line, *range(0, 1 << 12)}; }
            else { op.name = "dump"; op.strs.clear(); }
            return op;
        });
    }
    static rc::Gen<Op> gen_macro_op() {
        return rc::gen::exec([]() {
            Op op;
            long k = *range(0, 99), v = *range(0, 7);
            if (k < 20) { op.name = "M"; op.ints = {v, *gen_size()}; }
            else if (k < 30) { op.name = "C"; op.ints = {v, *range(0, 3), *range(0, 20)}; }
            else if (k < 32) { op.name = "O"; op.ints = {v}; }
            else if (k < 62) { op.name = "R"; op.ints = {v, *gen_size()}; }
            else if (k < 88) { op.name = "F"; op.ints = {v}; }
            else { op.name = "S"; op.ints = {v}; op.strs.push_back(*text_over("abcXYZ019_./-", 60)); }
            return op;
        });
    }
    static rc::Gen<Case> with_head(const char *head, rc::Gen<Op> g) {
        std::string h = head;
        return rc::gen::map(rc::gen::container<std::vector<Op>>(std::move(g)), [h](std::vector<Op> v) { Op o; o.name = h; v.insert(v.begin(), o); return v; });
    }
    bool search(const std::string &mode, const std::function<bool(const Case &)> &try_case) override {
        if (mode == "table") return rc_search("C15 tracker table vs reference set", with_head("table", gen_table_op()), try_case);
        if (mode == "macros") return rc_search("C15 macro semantics, tracking on/off", with_head("macros", gen_macro_op()), try_case);
        return rc_search("C15 object programs on the tracking build", with_head("objects", c06::gen_op()), try_case);
    }
};
}  // namespace
vt::Harness *vt::make_harness() { return new C15(); }
