/* C15 probe: one user program written with the MALLOC/CALLOC/REALLOC/FREE/STRDUP macros, compiled twice
 * (DEBUG below / at the memory-debugging level).  It runs a script and prints everything a caller can
 * observe about allocation semantics; the traces of all builds and runtime levels must be identical. */
#include "config.h"
#include <libast.h>
#include <sanitizer/allocator_interface.h>
#define NV 8
typedef struct { char b[24]; } rec24_t;
static void *v[NV];
static size_t want[NV];
static int seed[NV];
#ifdef LIBAST_VERIF
# if DEBUG >= DEBUG_MEM
extern const spifmem_memrec_t *spifmem_verif_malloc_rec(void);
#  define TRACKING 1
# endif
#endif
static void fill(int i) { unsigned char *p = v[i]; size_t k; for (k = 0; k < want[i]; k++) p[k] = (unsigned char) (seed[i] * 13 + k * 5 + 3); }
static long check(int i, size_t n) { unsigned char *p = v[i]; size_t k; for (k = 0; k < n; k++) if (p[k] != (unsigned char) (seed[i] * 13 + k * 5 + 3)) return (long) k; return -1; }
static void state(void)
{
    int i, live = 0;
    printf(" |");
    for (i = 0; i < NV; i++) {
        if (!v[i]) printf(" -");
        else { live++; printf(" %d:%lu", __sanitizer_get_ownership(v[i]), (unsigned long) __sanitizer_get_allocated_size(v[i])); }
    }
    printf("\n");
#ifdef TRACKING
    if (libast_debug_level >= DEBUG_MEM) printf("T %lu %d\n", (unsigned long) spifmem_verif_malloc_rec()->cnt, live);
#endif
}
int main(int argc, char **argv)
{
    FILE *fp;
    char op;
    int n = 0;
    if (argc < 3 || !(fp = fopen(argv[1], "r"))) return 2;
    libast_debug_level = (unsigned int) atoi(argv[2]);
    while (fscanf(fp, " %c", &op) == 1) {
        int i = 0, t = 0;
        unsigned long sz = 0;
        void *old;
        char text[512];
        n++;
        switch (op) {
        case 'M':
            if (fscanf(fp, "%d %lu", &i, &sz) != 2) return 2;
            if (v[i]) FREE(v[i]);
            v[i] = MALLOC(sz);
            want[i] = sz; seed[i] = n;
            printf("M %d nonnull=%d", i, v[i] != NULL);
            if (v[i]) fill(i);
            break;
        case 'C':
            if (fscanf(fp, "%d %d %lu", &i, &t, &sz) != 3) return 2;
            if (v[i]) FREE(v[i]);
            switch (t) {
            case 0: v[i] = CALLOC(char, sz); want[i] = sz * sizeof(char); break;
            case 1: v[i] = CALLOC(int, sz); want[i] = sz * sizeof(int); break;
            case 2: v[i] = CALLOC(long, sz); want[i] = sz * sizeof(long); break;
            default: v[i] = CALLOC(rec24_t, sz); want[i] = sz * sizeof(rec24_t); break;
            }
            seed[i] = n;
            printf("C %d nonnull=%d", i, v[i] != NULL);
            if (v[i]) { size_t k; int z = 1; for (k = 0; k < want[i]; k++) if (((unsigned char *) v[i])[k]) z = 0; printf(" zeroed=%d", z); fill(i); }
            break;
        case 'R':
            if (fscanf(fp, "%d %lu", &i, &sz) != 2) return 2;
            old = v[i];
            v[i] = REALLOC(v[i], sz);
            printf("R %d nonnull=%d", i, v[i] != NULL);
            if (v[i] && old) printf(" kept=%ld", check(i, sz < want[i] ? sz : want[i]));
            if (old && old != v[i]) printf(" oldfreed=%d", !__sanitizer_get_ownership(old));
            want[i] = sz; seed[i] = n;
            if (v[i]) fill(i);
            break;
        case 'F':
            if (fscanf(fp, "%d", &i) != 1) return 2;
            old = v[i];
            FREE(v[i]);
            printf("F %d null=%d", i, v[i] == NULL);
            if (old) printf(" oldfreed=%d", !__sanitizer_get_ownership(old));
            break;
        case 'O':   /* a CALLOC whose byte count overflows size_t: refused (NULL) with tracking off, so it must be with tracking compiled in.
                     * Only at runtime level 0: above it a failed allocation is fatal by design in the tracking build. */
            if (fscanf(fp, "%d", &i) != 1) return 2;
            if (libast_debug_level == 0) {
                size_t cnt = ((size_t) -1) / sizeof(long) + 3;
                if (v[i]) FREE(v[i]);
                v[i] = CALLOC(long, cnt);
                want[i] = 16; seed[i] = n;
                printf("O %d nonnull=%d", i, v[i] != NULL);
                if (v[i]) FREE(v[i]);
            } else {
                if (v[i]) FREE(v[i]);
                printf("O %d nonnull=0", i);
            }
            break;
        case 'S':
            if (fscanf(fp, "%d %500s", &i, text) != 2) return 2;
            if (v[i]) FREE(v[i]);
            if (!strcmp(text, "-")) text[0] = 0;
            v[i] = STRDUP(text);
            want[i] = strlen(text) + 1; seed[i] = n;
            printf("S %d nonnull=%d same=%d", i, v[i] != NULL, v[i] && !strcmp((char *) v[i], text));
            if (v[i]) fill(i);
            break;
        default:
            return 2;
        }
        state();
    }
    { int i; for (i = 0; i < NV; i++) if (v[i]) FREE(v[i]); }
    printf("E");
    state();
    return 0;
}
