/* C15 shim.  libast is built with DEBUG=5 (tracking compiled in) and mem.c's malloc/calloc/realloc/free
 * are redirected to vt_* below (variant asan-dbg5-arena).  With the arena switched on the harness owns
 * every address the tracker sees: freed addresses are reused at once (LIFO per size class), realloc moves
 * or stays on request, and stale / foreign pointers are tolerated by the allocator so that "free or
 * realloc of an unknown pointer" is a defined history.  With the arena off vt_* are the C allocator. */
#include "config.h"
#include <libast.h>
#include <sanitizer/asan_interface.h>
#include <sanitizer/allocator_interface.h>

extern const spifmem_memrec_t *spifmem_verif_malloc_rec(void);

/* ------------------------------------------------------------------ arena */
#define ARENA_BYTES (8u << 20)
#define MAXBLK 8192
#define GAP 16
static unsigned char arena[ARENA_BYTES] __attribute__((aligned(16)));
static struct blk { size_t off, cap, req; int live; } blk[MAXBLK];
static int nblk, arena_on, realloc_move;
static size_t bump;
static long ignored_free, unknown_realloc;
#define NCLASS 257
static int freelist[NCLASS][64], nfree[NCLASS];

static int blk_of(const void *p)
{
    const unsigned char *q = (const unsigned char *) p;
    int i;
    if (q < arena || q >= arena + ARENA_BYTES) return -1;
    for (i = 0; i < nblk; i++) if (arena + blk[i].off == q) return i;
    return -1;
}
static void *blk_open(int i, size_t size)
{
    unsigned char *p = arena + blk[i].off;
    blk[i].live = 1;
    blk[i].req = size;
    ASAN_POISON_MEMORY_REGION(p, blk[i].cap);
    ASAN_UNPOISON_MEMORY_REGION(p, size);
    memset(p, 0xbe, size);
    return p;
}
static void *arena_malloc(size_t size)
{
    size_t cap = size < 16 ? 16 : (size + 15) & ~(size_t) 15;
    size_t cls = cap / 16;
    int i;
    if (cls < NCLASS && nfree[cls] > 0) return blk_open(freelist[cls][--nfree[cls]], size);
    if (nblk >= MAXBLK || bump + cap + GAP > ARENA_BYTES) { fprintf(stderr, "c15 arena exhausted\n"); _exit(97); }
    i = nblk++;
    blk[i].off = bump;
    blk[i].cap = cap;
    bump += cap + GAP;
    ASAN_POISON_MEMORY_REGION(arena + blk[i].off + cap, GAP);
    return blk_open(i, size);
}
static void arena_free(void *p)
{
    int i = blk_of(p);
    size_t cls;
    if (i < 0 || !blk[i].live) { ignored_free++; return; }
    blk[i].live = 0;
    ASAN_POISON_MEMORY_REGION(arena + blk[i].off, blk[i].cap);
    cls = blk[i].cap / 16;
    if (cls < NCLASS && nfree[cls] < 64) freelist[cls][nfree[cls]++] = i;
}
void *vt_malloc(size_t size) { return arena_on ? arena_malloc(size) : malloc(size); }
void *vt_calloc(size_t n, size_t s)
{
    void *p;
    if (!arena_on) return calloc(n, s);
    p = arena_malloc(n * s);
    memset(p, 0, n * s);
    return p;
}
void vt_free(void *p) { if (!arena_on) free(p); else if (p) arena_free(p); }
void *vt_realloc(void *p, size_t size)
{
    int i;
    void *q;
    if (!arena_on) return realloc(p, size);
    if (!p) return arena_malloc(size);
    i = blk_of(p);
    if (i < 0 || !blk[i].live) { unknown_realloc++; return arena_malloc(size); }
    if (size == 0) { arena_free(p); return NULL; }
    if (!realloc_move && size <= blk[i].cap) {
        size_t old = blk[i].req;
        blk[i].req = size;
        ASAN_POISON_MEMORY_REGION(arena + blk[i].off, blk[i].cap);
        ASAN_UNPOISON_MEMORY_REGION(arena + blk[i].off, size);
        if (size > old) memset(arena + blk[i].off + old, 0xbe, size - old);
        return p;
    }
    q = arena_malloc(size);
    memcpy(q, p, size < blk[i].req ? size : blk[i].req);
    arena_free(p);
    return q;
}

int c15_arena(int on) { arena_on = on; return 1; }
int c15_realloc_policy(int move) { realloc_move = move; return 1; }
/* 1 live with that requested size, 0 not live, -1 live with another size */
int c15_arena_live(long addr, long size)
{
    int i = blk_of((void *) addr);
    if (i < 0 || !blk[i].live) return 0;
    return (long) blk[i].req == size ? 1 : -1;
}
long c15_ignored_free(void) { return ignored_free; }
long c15_unknown_realloc(void) { return unknown_realloc; }
long c15_foreign(int k) { static char outside[4][32]; return (long) outside[k & 3]; }

/* ------------------------------------------------------------------ the five tracked operations */
int c15_level(long l) { libast_debug_level = (unsigned int) l; return 1; }
static const char *fname(const char *f, long n)
{
    /* exact-size copy so that a reader running past the terminator is seen */
    static char *prev;
    free(prev);
    prev = (char *) malloc((size_t) n + 1);
    memcpy(prev, f, (size_t) n);
    prev[n] = 0;
    return prev;
}
long c15_malloc(const char *f, long fn, unsigned long line, long size) { return (long) spifmem_malloc(fname(f, fn), line, (size_t) size); }
long c15_calloc(const char *f, long fn, unsigned long line, long count, long size) { return (long) spifmem_calloc(fname(f, fn), line, (size_t) count, (size_t) size); }
long c15_realloc(const char *f, long fn, unsigned long line, long ptr, long size) { return (long) spifmem_realloc("var", fname(f, fn), line, (void *) ptr, (size_t) size); }
int c15_free(const char *f, long fn, unsigned long line, long ptr) { spifmem_free("var", fname(f, fn), line, (void *) ptr); return 1; }
long c15_strdup(const char *f, long fn, unsigned long line, const char *text, long tn)
{
    char *t = (char *) malloc((size_t) tn + 1);
    long r;
    memcpy(t, text, (size_t) tn);
    t[tn] = 0;
    r = (long) spifmem_strdup("var", fname(f, fn), line, t);
    free(t);
    return r;
}
int c15_fill(long addr, long n, int seed) { unsigned char *p = (unsigned char *) addr; long i; for (i = 0; i < n; i++) p[i] = (unsigned char) (seed * 31 + i * 7 + 1); return 1; }
/* -1 all equal, else first differing index */
long c15_verify(long addr, long n, int seed) { unsigned char *p = (unsigned char *) addr; long i; for (i = 0; i < n; i++) if (p[i] != (unsigned char) (seed * 31 + i * 7 + 1)) return i; return -1; }
long c15_verify_zero(long addr, long n) { unsigned char *p = (unsigned char *) addr; long i; for (i = 0; i < n; i++) if (p[i]) return i; return -1; }
int c15_equal_text(long addr, const char *t, long n) { return memcmp((void *) addr, t, (size_t) n) == 0 && ((char *) addr)[n] == 0; }

/* ------------------------------------------------------------------ the table */
long c15_table_count(void) { return (long) spifmem_verif_malloc_rec()->cnt; }
int c15_table_get(long i, long *ptr, long *size, char *file, long *file_terminated, unsigned long *line)
{
    const spifmem_memrec_t *r = spifmem_verif_malloc_rec();
    const spifmem_ptr_t *p = r->ptrs + i;
    size_t k;
    *ptr = (long) p->ptr;
    *size = (long) p->size;
    *line = (unsigned long) p->line;
    *file_terminated = 0;
    for (k = 0; k < sizeof(p->file); k++) { file[k] = (char) p->file[k]; if (!p->file[k]) { *file_terminated = 1; break; } }
    file[sizeof(p->file)] = 0;
    return 1;
}
/* MALLOC_DUMP(): the textual view.  Returns the announced pointer count, *total = the announced byte total. */
long c15_dump(const char *dir, long *total, long *lines)
{
    char path[600], line[512];
    int fd, saved;
    long count = -1;
    FILE *fp;
    snprintf(path, sizeof path, "%s/c15-dump-XXXXXX", dir);
    fd = mkstemp(path);
    if (fd < 0) return -2;
    unlink(path);
    fflush(stderr);
    saved = dup(2);
    dup2(fd, 2);
    spifmem_dump_mem_tables();
    fflush(stderr);
    dup2(saved, 2);
    close(saved);
    lseek(fd, 0, SEEK_SET);
    fp = fdopen(fd, "r");
    *total = -1;
    *lines = 0;
    while (fgets(line, sizeof line, fp)) {
        unsigned long v;
        (*lines)++;
        if (strstr(line, "pointers stored.") && sscanf(line, "PTR:  %lu", &v) == 1) count = (long) v;
        if (strstr(line, "Total allocated memory:") && sscanf(line, "PTR:  Total allocated memory: %lu bytes", &v) == 1) *total = (long) v;
    }
    fclose(fp);
    return count;
}

/* ------------------------------------------------------------------ object programs on the tracking build */
#include "objs.inc"
#include "objs_own.inc"
