// C06 - ownership: every allocation is released exactly once across any object history.
#include "interp.hpp"
using namespace vt;
using namespace c06;
namespace {
struct C06 : Harness {
    const char *property() const override { return "C06"; }
    const char *rule() const override { return ""; }
    void run(const Case &c, Ctx &ctx) override { Interp in(ctx); in.run(c); }
    bool search(const std::string &, const std::function<bool(const Case &)> &try_case) override { return rc_search("C06 ownership programs, heap balance", rc::gen::container<std::vector<Op>>(gen_op()), try_case); }
};
}  // namespace
vt::Harness *vt::make_harness() { return new C06(); }
