/* C06 shim: ownership programs over the whole object API (engine/objs.inc) plus the ownership-transferring
 * operations: remove / remove_at / map remove, substr / subbuff, to_array, get_keys/values/pairs, iterators. */
#include "config.h"
#include <libast.h>
#include "objs.inc"

#include "objs_own.inc"
