/* C06 shim: ownership programs over the whole object API (engine/objs.inc) plus the ownership-transferring
 * operations: remove / remove_at / map remove, substr / subbuff, to_array, get_keys/values/pairs, iterators. */
#include "config.h"
#include <libast.h>
#include "objs.inc"

static int is_list(int c) { return c >= 7 && c <= 9; }
static int is_vector(int c) { return c >= 10 && c <= 12; }
static int is_map(int c) { return c >= 13 && c <= 15; }

/* take one element out of container `a` (it now belongs to the caller) and either delete it (b < 0) or
 * hand it to list `b` (append).  Returns 0 nothing removed, 1 removed+deleted, 2 removed+transferred. */
int c06_move(int a, int idx, const char *w, int b)
{
    spif_obj_t o = OB[a], e = NULL, probe;
    if (!o) return 0;
    if (is_list(OBC[a])) e = SPIF_LIST_REMOVE_AT(SPIF_LIST(o), (spif_listidx_t) idx);
    else if (is_vector(OBC[a])) { probe = ob_word(w); e = SPIF_VECTOR_REMOVE(SPIF_VECTOR(o), probe); SPIF_OBJ_DEL(probe); }
    else if (is_map(OBC[a])) { probe = ob_word(w); e = SPIF_MAP_REMOVE(SPIF_MAP(o), probe); SPIF_OBJ_DEL(probe); }
    else if (OBC[a] == 4 && SPIF_TOK(o)->tokens) e = SPIF_LIST_REMOVE_AT(SPIF_TOK(o)->tokens, (spif_listidx_t) idx);
    if (SPIF_OBJ_ISNULL(e)) return 0;
    if (b >= 0 && OB[b] && is_list(OBC[b]) && b != a) { SPIF_LIST_APPEND(SPIF_LIST(OB[b]), e); return 2; }
    SPIF_OBJ_DEL(e);
    return 1;
}
/* substr / subbuff of slot a into slot dst (caller owns the result) */
int c06_sub(int a, int idx, int cnt, int dst)
{
    spif_obj_t o = OB[a], r = NULL;
    if (!o) return 0;
    if (OBC[a] == 0 || OBC[a] == 5 || OBC[a] == 6) r = SPIF_OBJ(spif_str_substr(SPIF_STR(o), idx, cnt));
    else if (OBC[a] == 1) r = SPIF_OBJ(spif_ustr_substr(SPIF_USTR(o), idx, cnt));
    else if (OBC[a] == 2) r = SPIF_OBJ(spif_mbuff_subbuff(SPIF_MBUFF(o), idx, cnt));
    else return 0;
    if (SPIF_OBJ_ISNULL(r)) return 0;
    OB[dst] = r;
    OBC[dst] = (OBC[a] == 5 || OBC[a] == 6) ? 0 : OBC[a];
    return 1;
}
/* substr_to_ptr / subbuff_to_ptr: the caller frees the plain block */
int c06_sub_ptr(int a, int idx, int cnt)
{
    spif_obj_t o = OB[a];
    void *p = NULL;
    if (!o) return 0;
    if (OBC[a] == 0) p = spif_str_substr_to_ptr(SPIF_STR(o), idx, cnt);
    else if (OBC[a] == 1) p = spif_ustr_substr_to_ptr(SPIF_USTR(o), idx, cnt);
    else if (OBC[a] == 2) p = spif_mbuff_subbuff_to_ptr(SPIF_MBUFF(o), idx, cnt);
    else return 0;
    if (!p) return 0;
    free(p);
    return 1;
}
/* to_array: the array block belongs to the caller, the elements stay with the container */
int c06_to_array(int a)
{
    spif_obj_t o = OB[a], *arr = NULL;
    if (!o) return 0;
    if (is_list(OBC[a])) arr = SPIF_LIST_TO_ARRAY(SPIF_LIST(o));
    else if (is_vector(OBC[a])) arr = SPIF_VECTOR_TO_ARRAY(SPIF_VECTOR(o));
    else return 0;
    free(arr);
    return 1;
}
/* get_keys / get_values / get_pairs: into a new list (stored in dst) or appended to the existing list dst */
int c06_getlist(int a, int what, int dst, int fresh_kind)
{
    spif_obj_t o = OB[a];
    spif_list_t target = NULL, res;
    if (!o || !is_map(OBC[a])) return 0;
    if (OB[dst] && is_list(OBC[dst])) target = SPIF_LIST(OB[dst]);
    else if (OB[dst]) return 0;
    else if (fresh_kind) target = (fresh_kind == 1) ? SPIF_LIST_NEW(array) : (fresh_kind == 2) ? SPIF_LIST_NEW(linked_list) : SPIF_LIST_NEW(dlinked_list);
    res = what == 0 ? SPIF_MAP_GET_KEYS(SPIF_MAP(o), target) : what == 1 ? SPIF_MAP_GET_VALUES(SPIF_MAP(o), target) : SPIF_MAP_GET_PAIRS(SPIF_MAP(o), target);
    if (SPIF_LIST_ISNULL(res)) { if (target && !OB[dst]) SPIF_LIST_DEL(target); return 0; }
    if (!OB[dst]) { OB[dst] = SPIF_OBJ(res); OBC[dst] = ob_cls_of_obj(SPIF_OBJ(res)); }
    return 1;
}
/* iterator: create, take k steps, delete the iterator (elements stay owned by the container) */
int c06_iter(int a, int k)
{
    spif_obj_t o = OB[a];
    spif_iterator_t it = NULL;
    if (!o) return 0;
    if (is_list(OBC[a])) it = SPIF_LIST_ITERATOR(SPIF_LIST(o));
    else if (is_vector(OBC[a])) it = SPIF_VECTOR_ITERATOR(SPIF_VECTOR(o));
    else if (is_map(OBC[a])) it = SPIF_MAP_ITERATOR(SPIF_MAP(o));
    else return 0;
    if (SPIF_ITERATOR_ISNULL(it)) return 0;
    while (k-- > 0 && SPIF_ITERATOR_HAS_NEXT(it)) (void) SPIF_ITERATOR_NEXT(it);
    SPIF_OBJ_DEL(SPIF_OBJ(it));
    return 1;
}
/* map overwrite: set an existing key again (the old value must be released by the map) */
int c06_overwrite(int a, const char *w)
{
    spif_obj_t o = OB[a], k, v, first;
    spif_iterator_t it;
    int r;
    if (!o || !is_map(OBC[a]) || SPIF_MAP_COUNT(SPIF_MAP(o)) == 0) return 0;
    it = SPIF_MAP_ITERATOR(SPIF_MAP(o));
    first = SPIF_ITERATOR_NEXT(it);
    k = SPIF_OBJ_DUP(SPIF_OBJPAIR(first)->key);
    SPIF_OBJ_DEL(SPIF_OBJ(it));
    v = ob_word(w);
    r = SPIF_MAP_SET(SPIF_MAP(o), k, v);
    SPIF_OBJ_DEL(k);
    SPIF_OBJ_DEL(v);
    return r ? 1 : -1;   /* -1: the map claimed the key was new */
}
/* done() then init() through the class table: the object must be reusable and empty */
int c06_reinit(int a)
{
    spif_obj_t o = OB[a];
    if (!o) return 0;
    if (!SPIF_OBJ_DONE(o)) return -1;
    if (!SPIF_OBJ_INIT(o)) return -2;
    return SPIF_OBJ_CLASS(o) == ob_class(OBC[a]) ? 1 : -3;
}
/* url setters replace (and must release) the previous component */
int c06_url_set(int a, int which, const char *w)
{
    spif_obj_t o = OB[a];
    spif_str_t s;
    if (!o || OBC[a] != 5) return 0;
    s = (spif_str_t) ob_word(w);
    switch (which % 7) {
    case 0: spif_url_set_proto(SPIF_URL(o), s); break;
    case 1: spif_url_set_user(SPIF_URL(o), s); break;
    case 2: spif_url_set_passwd(SPIF_URL(o), s); break;
    case 3: spif_url_set_host(SPIF_URL(o), s); break;
    case 4: spif_url_set_port(SPIF_URL(o), s); break;
    case 5: spif_url_set_path(SPIF_URL(o), s); break;
    default: spif_url_set_query(SPIF_URL(o), s); break;
    }
    return 1;
}
int c06_tok_eval(int a) { if (!OB[a] || OBC[a] != 4 || !SPIF_TOK(OB[a])->src) return 0; return spif_tok_eval(SPIF_TOK(OB[a])) ? 1 : -1; }
