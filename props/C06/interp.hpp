// interp.hpp - the C06 ownership-program interpreter and generator (also used by C15 on the tracking build)
#pragma once
// C06 - ownership: every allocation is released exactly once across any object history.
#include "../../engine/rcglue.hpp"
#include "../../engine/latrack.hpp"

extern "C" {
int ob_init(void); int ob_exists(int); int ob_cls(int); int ob_make(int, int, int, const char *, int); const char *ob_read(int); const char *ob_clsname(int);
int c06_refused(int, int, const char *); int c06_drain_refill(int, int, const char *); int ob_set_level(int); long ob_tracker_count(void); int ob_dup(int, int); int ob_del(int); int ob_done(int); int ob_type_ok(int); int ob_mutate(int, int, const char *);
int c06_move(int, int, const char *, int); int c06_sub(int, int, int, int); int c06_sub_ptr(int, int, int); int c06_to_array(int); int c06_getlist(int, int, int, int);
int c06_iter(int, int); int c06_overwrite(int, const char *); int c06_reinit(int); int c06_url_set(int, int, const char *); int c06_tok_eval(int);
}
using namespace vt;
namespace c06 {
const std::vector<std::string> kWords = {"abc", "abcd", "ab", "b", "x9", "ABC", "m", "zz", "a", "mid"};
enum { NS = 8 };
std::string pack(const Op &op) { std::string p; for (auto &s : op.strs) { p += s; p.push_back('\0'); } return p; }

struct Interp {
    Ctx &ctx;
    int transfers = 0;
    int oracle = 0;   // 0: ASan-hook allocation table; 1: libast's own tracker (tracking build, runtime level 5)
    bool deleted_nonempty_container = false;
    std::string empty_read[16];
    explicit Interp(Ctx &c) : ctx(c) {}
    int S(long v) { return (int)(((v % NS) + NS) % NS); }
    std::string W(const Op &op) { return op.strs.empty() ? "m" : op.strs.back(); }

    void run(const Case &c) {
        ht_install();
        ob_init();
        if (oracle == 1) { ob_set_level(5); VT_CHECK(ctx, ob_tracker_count() >= 0, "harness", "tracking is not compiled into this build"); }
        // the read-back of a fresh empty object of every class: what done() must restore
        for (int cls = 0; cls < 16; cls++) { LA(ob_make(NS, cls, 0, "", 0)); empty_read[cls] = LA(ob_read(NS)); LA(ob_del(NS)); }
        for (size_t at = 0; at < c.size(); at++) {
            ctx.step((int)at);
            ht_set_tag((int)at);
            apply(c[at]);
        }
        ctx.step((int)c.size());
        // delete whatever is left, in slot order
        for (int s = 0; s < NS + 1; s++) if (ob_exists(s)) { note_delete(s); VT_CHECK(ctx, LA(ob_del(s)) == 1, "mismatch", "del; del returned FALSE"); }
        if (oracle == 1) {
            long n = ob_tracker_count();
            VT_CHECK(ctx, n == 0, "mismatch", "tracker-not-empty; the library's own allocation table still holds " << n << " record(s) after every object was deleted");
            ctx.label("tracker-empty-after-deleting-everything");
        } else if (!ht_overflowed() && ht_live_count() != 0) {
            char buf[256];
            ht_describe(buf, sizeof buf);
            ctx.fail("leak", "heap-not-balanced; " + std::to_string(ht_live_count()) + " block(s), " + std::to_string(ht_live_bytes()) + " bytes still live after the program deleted every object it owned: " + buf);
        }
        if (transfers >= 1 && deleted_nonempty_container) ctx.nontrivial();
        ctx.ok();
    }
    void note_delete(int s) {
        int cls = ob_cls(s);
        if (cls >= 7) { std::string r = LA(ob_read(s)); if (r.find("#0") == std::string::npos) { deleted_nonempty_container = true; ctx.label("delete:non-empty-container"); } if (r.find('~') != std::string::npos && cls <= 9) ctx.label("delete:list-with-placeholders"); }
    }
    void apply(const Op &op) {
        const std::string &n = op.name;
        int a = S(op.i(0));
        if (n == "make") {
            if (ob_exists(a)) { note_delete(a); LA(ob_del(a)); }
            int cls = (int)(((op.i(1) % 16) + 16) % 16), shape = (int)(((op.i(2) % 5) + 5) % 5);
            std::string p = pack(op);
            VT_CHECK(ctx, LA(ob_make(a, cls, shape, p.data(), (int)op.strs.size())) == 1, "mismatch", "new:" << ob_clsname(cls) << "; constructor returned NULL");
            ctx.label(std::string("make:") + ob_clsname(cls));
            return;
        }
        if (n == "refused") {
            if (oracle == 1) return;   // on the tracking build the runtime level is 5, where a refused argument is fatal by design (C16)
            int kind = (int)(op.i(1) & 1);
            int r = LA(c06_refused(kind, a, W(op).c_str()));
            VT_CHECK(ctx, r != -1, "mismatch", "refused-construction-accepted; kind " << kind << " (pair from (key,NULL) / (NULL,value)) was accepted");
            if (r == 1) ctx.label("edge:refused-construction");   // whatever it allocated on the way must be gone at the end (heap balance)
            return;
        }
        // type-specific ops look for a slot holding a suitable class (starting at a); if there is none, one is made
        auto want = [&](const std::string &op_name, int cls) {
            if (op_name == "tokeval") return cls == 4;
            if (op_name == "urlset") return cls == 5;
            if (op_name == "sub" || op_name == "subptr") return cls <= 2;
            if (op_name == "overwrite" || op_name == "getlist") return cls >= 13;
            if (op_name == "toarray") return cls >= 7 && cls <= 12;
            if (op_name == "iter" || op_name == "move") return cls >= 7;
            if (op_name == "drain") return cls >= 7 && cls <= 9;
            return true;
        };
        {
            int found = -1;
            for (int k = 0; k < 6 && found < 0; k++) { int s2 = (a + k) % 6; if (ob_exists(s2) && want(n, ob_cls(s2))) found = s2; }
            if (found < 0) {
                static const int dflt[] = {4, 5, 0, 13, 7, 9};
                int cls2 = n == "tokeval" ? 4 : n == "urlset" ? 5 : (n == "sub" || n == "subptr") ? (int)(op.i(1) & 1) * 2 : (n == "overwrite" || n == "getlist") ? 13 + (int)(((op.i(1) % 3) + 3) % 3) : n == "toarray" ? 10 + (int)(((op.i(1) % 3) + 3) % 3) : (n == "iter" || n == "move") ? 7 + (int)(((op.i(2) % 9) + 9) % 9) : n == "drain" ? 7 + (int)(((op.i(2) % 3) + 3) % 3) : -1;
                (void)dflt;
                if (cls2 < 0) { if (!ob_exists(a)) return; found = a; }
                else {
                    if (ob_exists(a)) { note_delete(a); LA(ob_del(a)); }
                    std::string p2 = std::string("abc") + '\0' + "x9" + '\0' + "mid" + '\0' + "zz" + '\0';
                    LA(ob_make(a, cls2, 3, p2.data(), 4));
                    found = a;
                }
            }
            a = found;
        }
        int cls = ob_cls(a);
        std::string cn = ob_clsname(cls);
        if (n == "del") { note_delete(a); VT_CHECK(ctx, LA(ob_del(a)) == 1, "mismatch", "del:" << cn << "; del returned FALSE"); ctx.label("early-delete"); return; }
        if (n == "dup") { int b = S(op.i(1)); if (b == a) return; if (ob_exists(b)) { note_delete(b); LA(ob_del(b)); } int r = LA(ob_dup(a, b)); VT_CHECK(ctx, r == 1, "mismatch", "dup:" << cn << "; dup failed (" << r << ")"); ctx.label("edge:dup-result"); transfers++; return; }
        if (n == "mutate") { LA(ob_mutate(a, (int)(((op.i(1) % 3) + 3) % 3), W(op).c_str())); return; }
        if (n == "move") {
            int b = op.i(1) < 0 ? -1 : S(op.i(1));
            int r = LA(c06_move(a, (int)op.i(2), W(op).c_str(), b));
            if (r == 1) { ctx.label("edge:removed-element-deleted-by-caller"); transfers++; }
            if (r == 2) { ctx.label("edge:removed-element-moved-to-another-list"); transfers++; }
            if (r && cls >= 13) ctx.label("edge:removed-pair");
            return;
        }
        if (n == "sub") { int b = S(op.i(1)); if (b == a || ob_exists(b)) return; if (LA(c06_sub(a, (int)op.i(2), (int)op.i(3), b))) { ctx.label("edge:substr/subbuff-result"); transfers++; } return; }
        if (n == "subptr") { if (LA(c06_sub_ptr(a, (int)op.i(1), (int)op.i(2)))) { ctx.label("edge:substr_to_ptr-result"); transfers++; } return; }
        if (n == "toarray") { if (LA(c06_to_array(a))) { ctx.label("edge:to_array-result"); transfers++; } return; }
        if (n == "getlist") { int b = S(op.i(1)); if (b == a) return; if (LA(c06_getlist(a, (int)(((op.i(2) % 3) + 3) % 3), b, (int)(((op.i(3) % 4) + 4) % 4)))) { ctx.label("edge:get_keys/values/pairs-result"); transfers++; } return; }
        if (n == "iter") { if (LA(c06_iter(a, (int)(op.i(1) & 7)))) ctx.label("edge:iterator"); return; }
        if (n == "overwrite") { int r = LA(c06_overwrite(a, W(op).c_str())); VT_CHECK(ctx, r != -1, "mismatch", "overwrite:" << cn << "; set() on an existing key claimed the key was new"); if (r == 1) { ctx.label("edge:map-value-overwritten"); transfers++; } return; }
        if (n == "drain") { int r = LA(c06_drain_refill(a, (int)(op.i(1) & 3), W(op).c_str())); VT_CHECK(ctx, r != -1, "mismatch", "drain-refill:" << cn << "; a list emptied element by element and filled again does not hold its two new elements"); if (r == 1) { ctx.label("edge:list-drained-and-refilled"); transfers++; } return; }
        if (n == "urlset") { if (LA(c06_url_set(a, (int)(op.i(1) & 7), W(op).c_str()))) ctx.label("edge:url-setter-replaces-component"); return; }
        if (n == "tokeval") { int r = LA(c06_tok_eval(a)); VT_CHECK(ctx, r != -1, "mismatch", "tok_eval; eval returned FALSE"); if (r == 1) ctx.label("edge:tok-evaluated-again"); return; }
        if (n == "done" || n == "reinit") {
            std::string before = LA(ob_read(a));
            if (n == "done") VT_CHECK(ctx, LA(ob_done(a)) == 1, "mismatch", "done:" << cn << "; done returned FALSE");
            else { int r = LA(c06_reinit(a)); VT_CHECK(ctx, r == 1, "mismatch", "reinit:" << cn << "; done()+init() failed (" << r << ")"); }
            std::string after = LA(ob_read(a));
            VT_CHECK(ctx, after == empty_read[cls], "mismatch", "done-leaves-empty:" << cn << "; after " << n << " the object reads " << after << " but a fresh one reads " << empty_read[cls]);
            VT_CHECK(ctx, LA(ob_type_ok(a)), "mismatch", "done-keeps-class:" << cn << "; the object's class changed");
            // reusable: grow it again
            LA(ob_mutate(a, 0, W(op).c_str()));
            ctx.label(n == "done" ? "done-then-reuse" : "done+init-then-reuse");
            if (before == empty_read[cls]) ctx.label("done-on-fresh-object");
            return;
        }
        ctx.fail("harness", "unknown op " + n);
    }
};

rc::Gen<Op> gen_op() {
    return rc::gen::exec([]() {
        int k = (int)*range(0, 99);
        long a = *range(0, 5);
        std::string w = *rc::gen::elementOf(kWords);
        if (k < 30) {
            Op o = mk("make", {a, *range(0, 9) < 6 ? *range(7, 15) : *range(0, 15), *range(0, 4)});
            long n = *range(0, 6);
            for (long i = 0; i < n; i++) o.strs.push_back(*rc::gen::elementOf(kWords));
            return o;
        }
        if (k < 36) return mk("dup", {a, *range(0, 5)});
        if (k < 46) return mk("mutate", {a, *range(0, 2)}, {w});
        if (k < 60) return mk("move", {a, *range(-1, 5), *range(-1, 3)}, {w});
        if (k < 64) return mk("sub", {a, *range(0, 5), *range(-2, 3), *range(0, 3)});
        if (k < 66) return mk("subptr", {a, *range(-2, 3), *range(0, 3)});
        if (k < 70) return mk("toarray", {a});
        if (k < 77) return mk("getlist", {a, *range(0, 5), *range(0, 2), *range(0, 3)});
        if (k < 80) return mk("iter", {a, *range(0, 7)});
        if (k < 82) return mk("overwrite", {a}, {w});
        if (k < 83) return mk("refused", {a, *range(0, 1)}, {w});
        if (k < 84) return mk("drain", {a, *range(0, 3), *range(0, 2)}, {w});
        if (k < 86) return mk("urlset", {a, *range(0, 6)}, {w});
        if (k < 88) return mk("tokeval", {a});
        if (k < 92) return mk("done", {a}, {w});
        if (k < 95) return mk("reinit", {a}, {w});
        return mk("del", {a});
    });
}
}  // namespace c06
