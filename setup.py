#!/usr/bin/env python3
"""setup_cmd: compile the /repo-independent part of the framework (engine + per-property C++
harnesses: rapidcheck generators, reference models, interpreters) into .cache/obj.  Offline; files on
disk only.  check.py calls ensure_objects() itself, so a missing/stale cache is rebuilt on demand."""
import glob, hashlib, os, subprocess, sys
from concurrent.futures import ThreadPoolExecutor

VERIF = os.path.dirname(os.path.abspath(__file__))
OBJ = os.path.join(VERIF, ".cache", "obj")
CXX = "clang++"
CXXFLAGS = "-std=gnu++17 -O1 -g -fno-omit-frame-pointer -Wall -Wno-unused-function -Wno-unused-variable"
CC = "clang"
CFLAGS = "-O1 -g -fno-omit-frame-pointer -Wall"


def _hash(paths, extra):
    h = hashlib.sha256(extra.encode())
    for p in sorted(paths):
        h.update(p.encode())
        h.update(open(p, "rb").read())
    return h.hexdigest()[:16]


def engine_headers():
    return glob.glob(os.path.join(VERIF, "engine", "*.hpp")) + glob.glob(os.path.join(VERIF, "engine", "*.h"))


def obj_for(src):
    """Compile src (C++ or C, repo-independent) if needed; return object path."""
    is_cxx = src.endswith(".cpp")
    deps = [src] + engine_headers() + glob.glob(os.path.join(os.path.dirname(src), "*.hpp")) + \
        glob.glob(os.path.join(os.path.dirname(src), "*.inc")) + glob.glob(os.path.join(VERIF, "props", "*", "*.hpp"))
    flags = CXXFLAGS if is_cxx else CFLAGS
    key = _hash(deps, flags)
    rel = os.path.relpath(src, VERIF).replace("/", "_")
    out = os.path.join(OBJ, "%s-%s.o" % (rel, key))
    if os.path.exists(out):
        return out
    os.makedirs(OBJ, exist_ok=True)
    for old in glob.glob(os.path.join(OBJ, rel + "-*.o")):
        os.unlink(old)
    cmd = [CXX if is_cxx else CC] + flags.split() + ["-I" + os.path.join(VERIF, "engine"), "-c", src, "-o", out + ".tmp"]
    r = subprocess.run(cmd, capture_output=True, text=True)
    if r.returncode != 0:
        raise RuntimeError("compile failed: %s\n%s" % (" ".join(cmd), r.stderr))
    os.rename(out + ".tmp", out)
    return out


def harness_sources(prop):
    d = os.path.join(VERIF, "props", prop)
    return sorted(glob.glob(os.path.join(d, "harness*.cpp")) + glob.glob(os.path.join(d, "model*.cpp")) +
                  glob.glob(os.path.join(d, "gen*.cpp")))


def engine_sources():
    return [os.path.join(VERIF, "engine", "engine.cpp"), os.path.join(VERIF, "engine", "heaptrack.c"),
            os.path.join(VERIF, "engine", "main.cpp"), os.path.join(VERIF, "engine", "fuzz_main.cpp")]


def ensure_objects(props):
    srcs = list(engine_sources())
    for p in props:
        srcs += harness_sources(p)
    with ThreadPoolExecutor(16) as ex:
        objs = list(ex.map(obj_for, srcs))
    return dict(zip(srcs, objs))


def all_props():
    return sorted(os.path.basename(p) for p in glob.glob(os.path.join(VERIF, "props", "C*")) if os.path.isdir(p))


if __name__ == "__main__":
    props = sys.argv[1:] or all_props()
    objs = ensure_objects(props)
    print("setup: %d objects ready in %s" % (len(objs), OBJ))
