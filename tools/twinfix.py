#!/usr/bin/env python3
"""Apply the same textual replacement to src/str.c and its twin src/ustr.c (names substituted)."""
import sys
def apply(pairs, repo="/repo"):
    for fn, sub in (("src/str.c", lambda t: t), ("src/ustr.c", lambda t: t.replace("spif_str_", "spif_ustr_").replace("SPIF_STR_", "SPIF_USTR_").replace("(str)", "(ustr)"))):
        p = repo + "/" + fn
        s = open(p).read()
        for old, new in pairs:
            o, n = sub(old), sub(new)
            if s.count(o) != 1:
                print("ERROR: %s: pattern occurs %d times:\n%s" % (fn, s.count(o), o)); sys.exit(1)
            s = s.replace(o, n)
        open(p, "w").write(s)
    print("applied to str.c and ustr.c")
