#!/usr/bin/env python3
"""Run the repository's suite (guard off) in REPO (default /repo) and verify the 119 stable baseline tests pass."""
import json, re, subprocess, sys
repo = sys.argv[1] if len(sys.argv) > 1 else "/repo"
base = json.load(open("/root/.vp/BASELINE.json"))["stable_pass"]
import time
for attempt in range(6):
    r = subprocess.run("make -C %s >/dev/null 2>&1; make -C %s/test test 2>&1" % (repo, repo), shell=True, capture_output=True, text=True)
    out = r.stdout
    passed = set()
    for m in re.finditer(r"^(Testing .*?)\.\.\.(.*)$", out, re.M):
        if m.group(2).startswith("passed"):
            passed.add(m.group(1))
    missing = [t for t in base if t not in passed]
    # the socket tests use a fixed TCP port: another suite run on this machine makes them fail spuriously
    if missing and "Address already in use" in out or (missing and all("socket" in t for t in missing)):
        time.sleep(15)
        continue
    break
print("baseline: %d/%d stable tests passed" % (len(base) - len(missing), len(base)))
for t in missing:
    print("  NOT PASSED:", t)
sys.exit(1 if missing else 0)
