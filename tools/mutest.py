#!/usr/bin/env python3
"""Sensitivity self-test (DESIGN 2.8): apply deliberate breakages to a scratch copy of /repo, verify each
still compiles and passes the 119 baseline tests, and that the property's quick check reports VIOLATION.

  mutest.py props/C01/mutants.json [name ...]        # mutants: [{name, file, old, new, (count)}]
  mutest.py --patch seeded/C01-x/patch.diff C01       # a seeded patch

Never touches /repo: works in /tmp/vt-mut-<pid> (removed afterwards) and points the checks at it through
VERIF_REPO."""
import json, os, shutil, subprocess, sys, time

VERIF = os.path.dirname(os.path.dirname(os.path.abspath(__file__)))


def sh(cmd, **kw):
    return subprocess.run(cmd, shell=isinstance(cmd, str), capture_output=True, text=True, errors="replace", **kw)


def fresh_copy():
    d = "/tmp/vt-mut-%d" % os.getpid()
    shutil.rmtree(d, ignore_errors=True)
    sh("cp -a /repo %s" % d)
    sh("git -C %s checkout -q -- ." % d)
    return d


def clean_alt(d):
    import hashlib
    shutil.rmtree(os.path.join(VERIF, ".cache", "alt-" + hashlib.sha256(d.encode()).hexdigest()[:8]), ignore_errors=True)


def baseline_ok(d):
    r = sh("python3 %s/tools/baseline.py %s" % (VERIF, d))
    return r.returncode == 0, r.stdout.strip().splitlines()[-3:]


def run_check(prop, d, tier="quick", seed=None):
    env = dict(os.environ, VERIF_REPO=d)
    if seed:
        env["VERIF_SEED"] = str(seed)
    t = time.time()
    r = subprocess.run([sys.executable, os.path.join(VERIF, "check.py"), prop, "--tier", tier, "--noevidence"],
                       capture_output=True, text=True, errors="replace", env=env)
    return r.returncode, r.stdout, r.stderr, time.time() - t


def main():
    args = sys.argv[1:]
    results = []
    if args and args[0] == "--patch":
        patch, props = args[1], args[2:]
        d = fresh_copy()
        try:
            r = sh("git -C %s apply %s" % (d, os.path.abspath(patch)))
            if r.returncode != 0:
                print("patch does not apply:", r.stderr)
                return 2
            ok, tail = baseline_ok(d)
            print("baseline with patch:", "PASS" if ok else "FAIL", tail)
            for p in props:
                rc, out, err, dt = run_check(p, d)
                v = [l for l in out.splitlines() if l.startswith("VIOLATION")]
                print("%s: exit %d in %.0fs %s" % (p, rc, dt, v[:2] if v else (err.strip().splitlines()[-2:] if rc == 2 else "")))
                for l in out.splitlines():
                    if l.startswith("  "):
                        print("   ", l.strip()[:300])
        finally:
            shutil.rmtree(d, ignore_errors=True)
            clean_alt(d)
        return 0
    mfile = args[0]
    only = set(args[1:])
    spec = json.load(open(mfile))
    prop = spec["property"]
    for m in spec["mutants"]:
        if only and m["name"] not in only:
            continue
        d = fresh_copy()
        try:
            p = os.path.join(d, m["file"])
            s = open(p, encoding="latin-1").read()
            cnt = s.count(m["old"])
            if cnt != m.get("count", 1):
                results.append((m["name"], "PATTERN-MISMATCH (%d occurrences)" % cnt))
                print("%-40s %s" % results[-1], flush=True)
                continue
            s = s.replace(m["old"], m["new"])
            open(p, "w", encoding="latin-1").write(s)
            ok, tail = baseline_ok(d)
            if not ok:
                results.append((m["name"], "INVALID-MUTANT (baseline fails: %s)" % tail))
                print("%-40s %s" % results[-1], flush=True)
                continue
            verdicts = []
            for pr in m.get("props", [prop]):
                rc, out, err, dt = run_check(pr, d)
                v = [l for l in out.splitlines() if l.startswith("VIOLATION")]
                det = [l.strip() for l in out.splitlines() if l.startswith("  ")]
                if rc == 1 and v:
                    verdicts.append("%s CAUGHT in %.0fs: %s" % (pr, dt, det[0][:160] if det else ""))
                elif rc == 0:
                    verdicts.append("%s MISSED (%.0fs)" % (pr, dt))
                else:
                    verdicts.append("%s BROKEN exit %d: %s" % (pr, rc, err.strip().splitlines()[-1:] ))
            results.append((m["name"], "; ".join(verdicts)))
        finally:
            shutil.rmtree(d, ignore_errors=True)
            clean_alt(d)
        print("%-40s %s" % results[-1], flush=True)
    missed = [r for r in results if "MISSED" in r[1] or "BROKEN" in r[1] or "PATTERN" in r[1]]
    print("\n%d mutants, %d not caught" % (len(results), len(missed)))
    return 1 if missed else 0


if __name__ == "__main__":
    sys.exit(main())
