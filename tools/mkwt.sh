#!/bin/sh
# mkwt.sh NAME : scratch git worktree of /repo HEAD under /tmp/wt-NAME, with the (git-ignored) configure outputs
set -e
d=/tmp/wt-$1
git -C /repo worktree remove --force $d 2>/dev/null || true
rm -rf $d
git -C /repo worktree add -q --detach $d HEAD
rsync -a --ignore-existing --exclude .git --exclude '*.o' --exclude '*.lo' --exclude '.libs' --exclude '*.la' --exclude libast-test /repo/ $d/
# absolute paths baked into the generated Makefiles point at /repo: re-point them
grep -rl "/repo" $d --include=Makefile --include=libtool --include=config.status 2>/dev/null | xargs -r sed -i "s#/repo#$d#g"
echo $d
