#!/bin/sh
# sweep.sh TIER SEED... : run every check with several VERIF_SEED values; prints one line per (seed, property)
tier=$1; shift
for sd in "$@"; do
  for p in C01 C02 C03 C04 C05 C06 C07 C08 C09 C10 C11 C12 C13 C14 C15 C16 C17 C18 C19 C20; do
    out=$(VERIF_SEED=$sd python3 /verif/check.py $p --tier $tier --noevidence 2>&1)
    rc=$?
    echo "seed=$sd $p rc=$rc $(echo "$out" | tail -1 | cut -c1-160)"
    if [ $rc -ne 0 ]; then echo "$out" | grep -A1 "VIOLATION\|broken" | head -8 | cut -c1-400; fi
  done
done
