#!/usr/bin/env python3
"""Regenerate MANIFEST.json from props/*/prop.json (key "manifest"); unclaimed properties go to not_applicable."""
import glob, json, os
V = os.path.dirname(os.path.dirname(os.path.abspath(__file__)))
props = [json.loads(l) for l in open(os.path.join(V, "properties.jsonl"))]
hooks_commits = []
hp = os.path.join(V, "hooks.json")
if os.path.exists(hp):
    hooks_commits = json.load(open(hp)).get("source_commits", [])
checks, na, served = [], [], []
for p in props:
    pid = p["id"]
    pj = os.path.join(V, "props", pid, "prop.json")
    cfg = json.load(open(pj)) if os.path.exists(pj) else {}
    m = cfg.get("manifest")
    if not m or not m.get("claimed", True):
        na.append({"property_id": pid, "reason": (m or {}).get("reason", "check not built yet (work in progress; claimed once its harness lands)")})
        continue
    served.append(pid)
    checks.append({
        "property_id": pid,
        "quick_cmd": "python3 check.py %s --tier quick" % pid,
        "thorough_cmd": "python3 check.py %s --tier thorough" % pid,
        "evidence_file": "evidence/%s.json" % pid,
        "replay_cmd_template": "python3 check.py %s --replay {path}" % pid,
        "engine": "vt-engine",
        "level_claimed": {"category": m.get("category", "exploration"), "text": m["text"], "design_ref": "DESIGN.md §4 " + pid},
        "level_note": m["note"],
        "technique": m["technique"],
    })
man = {
    "version": 1,
    "setup_cmd": "python3 setup.py",
    "hooks": {"guard": "LIBAST_VERIF", "enable": "build.py compiles /repo/src with -DLIBAST_VERIF (add-only accessors)",
              "baseline_off_cmd": "make -C /repo && make -C /repo/test test", "source_commits": hooks_commits, "add_only": True},
    "engines": [{"name": "vt-engine", "path": "engine/", "serves_properties": served,
                 "kind_free_text": "rapidcheck generators / exhaustive small-scope enumerators / libFuzzer targets + fork-per-case executor (ASan/UBSan child, verdict over a pipe, shrinking continues across crashes), exact heap-balance oracle via ASan malloc hooks, Python driver check.py"}],
    "checks": checks,
    "notes": "exit 0 = held (KNOWN-FINDING lines allowed); exit 1 + VIOLATION line = violation; exit 2 = the check itself is broken (never a violation). VERIF_SEED/VERIF_TIER honoured.",
    "not_applicable": na,
}
json.dump(man, open(os.path.join(V, "MANIFEST.json"), "w"), indent=1)
print("MANIFEST: %d checks, %d not_applicable" % (len(checks), len(na)))
