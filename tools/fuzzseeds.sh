#!/bin/sh
# fuzzseeds.sh: how many seeded changes does the libFuzzer mode alone catch?  (information for DESIGN 9.3)
for d in /verif/seeded/C08-* /verif/seeded/C10-* /verif/seeded/C12-* /verif/seeded/C13-* /verif/seeded/C14-* /verif/seeded/C17-* /verif/seeded/C18-*; do
  p=$(basename $d | cut -c1-3)
  s=/tmp/vt-fz-$$
  rm -rf $s; cp -a /repo $s; git -C $s checkout -q -- .
  if git -C $s apply $d/patch.diff 2>/dev/null || (cd $s && patch -p1 --no-backup-if-mismatch < $d/patch.diff >/dev/null 2>&1); then
    out=$(VERIF_REPO=$s python3 /verif/check.py $p --noevidence --modes fuzz 2>&1)
    echo "$(basename $d) rc=$? $(echo "$out" | grep -A1 VIOLATION | tail -1 | cut -c1-160)"
  else
    echo "$(basename $d) PATCH-DOES-NOT-APPLY"
  fi
  rm -rf $s /verif/.cache/alt-*
done
