#!/usr/bin/env python3
"""seedcheck.py <agent-out-dir> <Cxx> [more props...]: confirm each seeded change an agent produced
(<dir>/<k>/patch.diff + demo.c), run the property's quick check against it, and file it under
/verif/seeded/<Cxx>-<tag>-<k>/ (patch.diff, demo.c, README.txt, meta.json)."""
import glob, json, os, shutil, subprocess, sys, time
V = os.path.dirname(os.path.dirname(os.path.abspath(__file__)))
LIBS = "-lpcre -lX11 -lSM -lICE -lfreetype -ldl -lm -lpthread"

def sh(cmd, **kw):
    return subprocess.run(cmd, shell=True, capture_output=True, text=True, errors="replace", **kw)

def build_demo(demo, root, exe, asan=False):
    lib = "%s/src/.libs/libast.a" % root
    if asan:
        # rebuild objects with ASan for memory-error demos
        os.makedirs(exe + ".objs", exist_ok=True)
        srcs = [f for f in glob.glob(root + "/src/*.c") if os.path.basename(f) not in ("avl_tree.c",)]
        objs = []
        for s in srcs:
            o = exe + ".objs/" + os.path.basename(s)[:-2] + ".o"
            r = sh("gcc -g -fsanitize=address -w -DHAVE_CONFIG_H -I%s -I%s/include -I%s/include/libast -c %s -o %s" % (root, root, root, s, o))
            if r.returncode == 0: objs.append(o)
        r = sh("gcc -g -fsanitize=address -w -I%s -I%s/include -I%s/include/libast %s %s %s -o %s" % (root, root, root, demo, " ".join(objs), LIBS, exe))
    else:
        r = sh("gcc -g -w -include %s/config.h -I%s -I%s/include -I%s/include/libast %s %s %s -o %s" % (root, root, root, root, demo, lib, LIBS, exe))
    return r.returncode == 0, r.stderr[-500:]

def run_demo(kdir, demo, root, exe, asan):
    """-> (returncode or None, error text).  A demo.sh (argument: library root) takes precedence over demo.c."""
    dsh = os.path.join(kdir, "demo.sh")
    if os.path.exists(dsh) and __import__("re").search(r"\$\{?1", open(dsh, errors="replace").read()):   # a demo.sh with a hard-wired path is of no use on a scratch copy
        try:
            r = sh("cd %s && sh ./demo.sh %s" % (kdir, root), timeout=900)
        except subprocess.TimeoutExpired:
            return None, "demo.sh timed out"
        return r.returncode, (r.stdout + r.stderr)[-300:]
    ok, err = build_demo(demo, root, exe, asan)
    if not ok:
        return None, "build failed: " + err
    try:
        return sh(exe, timeout=120).returncode, ""
    except subprocess.TimeoutExpired:
        return 124, "timeout"


def main():
    src, props = sys.argv[1], sys.argv[2:]
    tag = os.path.basename(os.path.dirname(src.rstrip("/"))).replace("wt-", "") if src.rstrip("/").endswith("_out") else "x"
    raw = os.path.join(V, ".cache", "seed-raw", tag)
    shutil.rmtree(raw, ignore_errors=True)
    shutil.copytree(src, raw, ignore=shutil.ignore_patterns("demo", "*.o", "demo_*"))   # keep the agent's output before anything can remove the worktree
    for kdir in sorted(glob.glob(os.path.join(src, "[0-9]*"))):
        k = os.path.basename(kdir)
        patch = os.path.join(kdir, "patch.diff")
        demo = os.path.join(kdir, "demo.c")
        if not os.path.exists(patch) or not os.path.exists(demo):
            print(k, "incomplete"); continue
        d = "/tmp/vt-seed-%d" % os.getpid()
        shutil.rmtree(d, ignore_errors=True)
        sh("cp -a /repo %s && git -C %s checkout -q -- ." % (d, d))
        meta = {"property": props[0], "source": "sub-agent (given only the property text and a scratch worktree)", "ran": []}
        try:
            readme = open(os.path.join(kdir, "README.txt")).read() if os.path.exists(os.path.join(kdir, "README.txt")) else ""
            asan = "fsanitize" in readme or "ASan" in readme or "asan" in readme.lower()
            # demo on the unmodified tree
            sh("make -C %s" % d)
            r0, err = run_demo(kdir, demo, d, d + "/demo_clean", asan)
            meta["ran"].append("demo on unmodified tree: " + ("exit %d" % r0 if r0 is not None else err))
            r = sh("git -C %s apply %s" % (d, patch))
            if r.returncode != 0:
                r = sh("cd %s && patch -p1 --no-backup-if-mismatch < %s" % (d, patch))
            if r.returncode != 0:
                print(k, "PATCH DOES NOT APPLY", r.stderr[-200:]); continue
            # store the patch as it applies to the current tree
            applied = sh("git -C %s diff" % d).stdout
            rb = sh("python3 %s/tools/baseline.py %s" % (V, d))
            base_ok = rb.returncode == 0
            meta["ran"].append("baseline suite with the change: " + rb.stdout.strip().splitlines()[0])
            r1, err = run_demo(kdir, demo, d, d + "/demo_mut", asan)
            meta["ran"].append("demo with the change: " + ("exit %d" % r1 if r1 is not None else err))
            valid = base_ok and r0 == 0 and r1 is not None and r1 != 0
            verdicts = {}
            for p in props:
                env = dict(os.environ, VERIF_REPO=d)
                t = time.time()
                rc = subprocess.run([sys.executable, os.path.join(V, "check.py"), p, "--noevidence"], capture_output=True, text=True, errors="replace", env=env)
                det = [l.strip() for l in rc.stdout.splitlines() if l.startswith("  ")]
                verdicts[p] = {"exit": rc.returncode, "seconds": round(time.time() - t), "detail": det[:2]}
                meta["ran"].append("python3 check.py %s (quick) against the changed tree: exit %d %s" % (p, rc.returncode, det[:1]))
            meta["valid"] = valid
            meta["caught_by"] = [p for p, v in verdicts.items() if v["exit"] == 1]
            meta["needs"] = readme.strip()[:1500]
            print("%s/%s valid=%s baseline=%s demo_clean=%s demo_mut=%s -> %s" % (tag, k, valid, base_ok, r0, r1,
                  {p: (v["exit"], v["detail"][:1]) for p, v in verdicts.items()}))
            if valid:
                out = os.path.join(V, "seeded", "%s-%s-%s" % (props[0], tag, k))
                os.makedirs(out, exist_ok=True)
                open(os.path.join(out, "patch.diff"), "w").write(applied)
                shutil.copy(demo, os.path.join(out, "demo.c"))
                if os.path.exists(os.path.join(kdir, "demo.sh")): shutil.copy(os.path.join(kdir, "demo.sh"), os.path.join(out, "demo.sh"))
                if readme: open(os.path.join(out, "README.txt"), "w").write(readme)
                json.dump(meta, open(os.path.join(out, "meta.json"), "w"), indent=1)
        finally:
            shutil.rmtree(d, ignore_errors=True)
            import hashlib
            shutil.rmtree(os.path.join(V, ".cache", "alt-" + hashlib.sha256(d.encode()).hexdigest()[:8]), ignore_errors=True)

if __name__ == "__main__":
    main()
