#!/usr/bin/env python3
"""benign.py [name ...]: negative controls.  Apply each property-preserving change of benign/changes.json to a scratch
copy of /repo, run the 119 baseline tests, then the quick tier of the named checks: all must stay green."""
import json, os, shutil, subprocess, sys
V = os.path.dirname(os.path.dirname(os.path.abspath(__file__)))

def sh(cmd, **kw):
    return subprocess.run(cmd, shell=True, capture_output=True, text=True, errors="replace", **kw)

def main():
    only = set(sys.argv[1:])
    bad = 0
    for m in json.load(open(os.path.join(V, "benign", "changes.json"))):
        if only and m["name"] not in only:
            continue
        d = "/tmp/vt-benign-%d" % os.getpid()
        shutil.rmtree(d, ignore_errors=True)
        sh("cp -a /repo %s && git -C %s checkout -q -- ." % (d, d))
        try:
            p = os.path.join(d, m["file"])
            s = open(p, encoding="latin-1").read()
            if s.count(m["old"]) != m.get("count", 1):
                print("%-40s PATTERN-MISMATCH (%d)" % (m["name"], s.count(m["old"]))); bad += 1; continue
            open(p, "w", encoding="latin-1").write(s.replace(m["old"], m["new"]))
            rb = sh("python3 %s/tools/baseline.py %s" % (V, d))
            if rb.returncode != 0:
                print("%-40s NOT-BENIGN (baseline fails)" % m["name"]); bad += 1; continue
            res = []
            for prop in m["props"]:
                r = subprocess.run([sys.executable, os.path.join(V, "check.py"), prop, "--noevidence"], capture_output=True, text=True, errors="replace",
                                   env=dict(os.environ, VERIF_REPO=d))
                if r.returncode != 0:
                    det = [l.strip() for l in r.stdout.splitlines() if l.startswith("  ") or l.startswith("broken")][:1]
                    res.append("%s exit %d %s" % (prop, r.returncode, det))
            print("%-40s %s" % (m["name"], "all green (%s)" % ",".join(m["props"]) if not res else "FALSE ALARM: " + "; ".join(res)[:400]), flush=True)
            bad += bool(res)
        finally:
            shutil.rmtree(d, ignore_errors=True)
            import hashlib
            shutil.rmtree(os.path.join(V, ".cache", "alt-" + hashlib.sha256(d.encode()).hexdigest()[:8]), ignore_errors=True)
    return 1 if bad else 0

if __name__ == "__main__":
    sys.exit(main())
