#!/usr/bin/env python3
"""Print the prompt for a mutant-writing sub-agent: only the property text and its scratch worktree."""
import json, sys
pid, wt = sys.argv[1], sys.argv[2]
n = sys.argv[3] if len(sys.argv) > 3 else "3"
ROUND2 = len(sys.argv) > 4 and sys.argv[4] == "round2"
ROUND3 = len(sys.argv) > 4 and sys.argv[4] == "round3"
R2 = ("This is a THIRD round: two earlier reviewers have already tried off-by-one slips in the central loops, dropped or moved guards, wrong bounds on scratch buffers, prefix-instead-of-exact comparisons, stale state between two calls, and missing updates on the less common implementation of an interface. Find defects of a DIFFERENT character: wrong behaviour only for a particular combination of two or three options/flags/arguments; arithmetic on sizes or indices that is wrong only at a type boundary or sign change; an error/refusal path that leaves a half-updated object behind; a resource (descriptor, temporary file, heap block) mishandled only when an earlier step failed; order-of-evaluation or aliasing problems when the same object is passed twice; behaviour that differs between the first use and a later use of the same object or subsystem. Each change must still be small and realistic." if ROUND3 else "This is a SECOND round: an earlier reviewer already tried the most obvious slips (an off-by-one in the main loop of the central function, a dropped guard in the most used entry point). Look further afield: rarely used API variants and class-table methods, interactions between two functions (one leaves state the other relies on), state carried across calls or across objects, behaviour at internal capacities and growth steps, error/refusal paths, the less common implementation of an interface, configuration-dependent code.  Each change must still be small and realistic." if ROUND2 else "")
p = [json.loads(l) for l in open('/verif/properties.jsonl') if json.loads(l)['id'] == pid][0]
EXTRA = {
 "C15": "NOTE on configuration: the worktree is configured with DEBUG=4 (config.h says `#define DEBUG 4`), so memory tracking (DEBUG >= 5) is compiled OUT of the default build and the suite never runs it. A demonstration for this property therefore has to compile the library sources itself at DEBUG=5: write demo.sh (argument $1 = the library root directory) which creates a temporary directory, copies $1/config.h into it with the DEBUG line changed to 5, compiles $1/src/*.c (except avl_tree.c) and demo.c with `-DHAVE_CONFIG_H -I<tmpdir> -I$1/include -I$1/include/libast -I$1` (the temporary directory FIRST so its config.h wins), links with the libraries listed below, runs the program with the runtime level set by the program itself (`libast_debug_level = 5;`) and exits with the program's exit status; demo.sh must exit 0 on the unmodified sources and non-zero with your change. The tracker's table is private (static in src/mem.c): a demo can observe it through MALLOC_DUMP() / spifmem_dump_mem_tables() output on stderr.",
 "C20": "NOTE on configuration: the worktree is configured with DEBUG=4 (config.h says `#define DEBUG 4`). A demonstration that needs another compile-time level has to compile the library sources itself: write demo.sh (argument $1 = the library root directory) which creates a temporary directory, copies $1/config.h into it with the DEBUG line changed, compiles $1/src/*.c (except avl_tree.c) and demo.c with `-DHAVE_CONFIG_H -I<tmpdir> -I$1/include -I$1/include/libast -I$1` (the temporary directory FIRST so its config.h wins), links with the libraries listed below, runs the program and exits 0 on the unmodified sources and non-zero with your change.",
}
print(f"""You are helping to evaluate a test suite's blind spots for the C library LibAST (mej/libast). You work ONLY inside the scratch git worktree {wt} (a checkout of the library that is already configured: `make -C {wt}` builds it, `make -C {wt}/test test` runs its test suite; the suite always ends with one expected failure at "spif_module_load" - everything printed before that must say "passed"; the socket tests bind a fixed TCP port, so if a run stops early at a socket test with "Address already in use" another suite run on this machine is holding the port - wait a minute and run it again). Do not read or touch /repo or /verif or any other directory; everything you need is in {wt}.

Here is a semantic property the library is supposed to satisfy:

  Title: {p['title']}
  Statement: {p['statement']}
  Quantified over: {p['quantifier']['text']}

{EXTRA.get(pid, "")}

{R2}

Your task: write {n} DIFFERENT small source changes ("seeded defects") to the library code under {wt}/src or {wt}/include, each of which
  (a) BREAKS the property above (for some input / history / configuration the statement covers),
  (b) still compiles without errors, and
  (c) still passes the existing test suite exactly as before (same tests print "passed"; check by running it),
  (d) is realistic - the kind of slip a maintainer could make in a refactor or "optimisation" (off-by-one in a boundary case, a dropped bookkeeping update on one path, a wrong comparison direction in a rarely taken branch, a missing special case, two cooperating sites that each look fine alone), NOT a blatant sabotage, and
  (e) needs something SPECIFIC to manifest: a particular multi-step sequence of operations, an unusual input (boundary index, empty object, long input crossing an internal chunk size, a duplicate, ...), a particular fault/interleaving, or a particular configuration. Ordinary simple use must NOT expose it at once. Prefer defects that produce wrong results or silent corruption for specific inputs over ones that crash immediately on every call.
Make the {n} changes different in mechanism and in the part of the code/property they attack (do not write three variants of the same slip).

For each change k = 1..{n} create the directory {wt}/_out/k/ containing:
  - patch.diff : the change as a unified diff produced by `git -C {wt} diff` against the unmodified checkout (ONE change only; library sources only - never edit the test suite),
  - demo.c (and demo.sh if needed): a small standalone demonstration program that uses the library's public API, exits 0 on the unmodified library and exits non-zero (or crashes) with the change applied. Build it against the worktree, e.g.
        gcc -I{wt} -I{wt}/include -I{wt}/include/libast demo.c {wt}/src/.libs/libast.a -lpcre -lX11 -lSM -lICE -lfreetype -ldl -lm -lpthread -o demo
    (add -fsanitize=address and rebuild the library objects with it if the breakage is a memory error that plain malloc hides; say so in the README),
  - README.txt : 5-10 lines: what the change is, why it breaks the property, exactly what is needed for it to manifest, and the commands you ran with their observed results (suite with change: all previous tests still pass; demo without change: exit 0; demo with change: non-zero).
Work on one change at a time: edit, `make -C {wt}`, run the suite, run the demo, save `git diff` as patch.diff, then `git -C {wt} checkout -- src include` before starting the next one. Verify by actually running things; do not guess. At the end leave the worktree sources unmodified (only _out/ added). Finish with a short summary listing the {n} changes.""")
