#!/usr/bin/env python3
"""Build libast variants from /repo's *current working tree* (content-hash cache).

Usage (library):  import build; libdir = build.ensure("asan")
Usage (cli):      python3 build.py ensure asan
"""
import hashlib, os, re, subprocess, sys, shutil, glob
from concurrent.futures import ThreadPoolExecutor

VERIF = os.path.dirname(os.path.abspath(__file__))
REPO = os.environ.get("VERIF_REPO", "/repo")
CACHE = os.path.join(VERIF, ".cache")
if REPO != "/repo":   # scratch copies (mutation self-tests) get their own cache root
    CACHE = os.path.join(VERIF, ".cache", "alt-" + hashlib.sha256(REPO.encode()).hexdigest()[:8])
GUARD = "LIBAST_VERIF"

SAN = ("-fsanitize=address,undefined "
       "-fno-sanitize=signed-integer-overflow,nonnull-attribute,returns-nonnull-attribute,"
       "function,vptr,pointer-overflow "
       "-fno-sanitize-recover=undefined")
BASE_C = "-O1 -g -fno-omit-frame-pointer -fno-optimize-sibling-calls -w"

VARIANTS = {
    # name: (cc, cflags, DEBUG override or None, per-file extra flags)
    "asan": ("clang", BASE_C + " " + SAN, None, {}),
    "asan-fuzz": ("clang", BASE_C + " " + SAN + " -fsanitize=fuzzer-no-link", None, {}),
    "asan-dbg0": ("clang", BASE_C + " " + SAN, 0, {}),
    "asan-dbg5": ("clang", BASE_C + " " + SAN, 5, {}),
    # mem.c routed to a harness arena (C15)
    "asan-dbg5-arena": ("clang", BASE_C + " " + SAN, 5,
                        {"mem.c": "-Dmalloc=vt_malloc -Dcalloc=vt_calloc -Drealloc=vt_realloc -Dfree=vt_free"}),
    "msan": ("clang", "-O1 -g -fno-omit-frame-pointer -w -fsanitize=memory -fsanitize-memory-track-origins", None, {}),
    "plain": ("gcc", "-O0 -g -w", None, {}),
}
for _d in (0, 1, 2, 3, 4, 5, 9999):
    VARIANTS["dbg%d" % _d] = ("gcc", "-O0 -g -w", _d, {})


def repo_sources():
    mk = open(os.path.join(REPO, "src", "Makefile.am")).read()
    m = re.search(r"libast_la_SOURCES\s*=\s*((?:.*\\\n)*.*)", mk)
    names = m.group(1).replace("\\\n", " ").split()
    return [n for n in names if n.endswith(".c")]


def support_headers():
    """Return dict relpath -> abs path for the configure outputs (repo first, snapshot otherwise)."""
    out = {}
    for rel in ("config.h", "include/libast/types.h", "include/libast/sysdefs.h"):
        p = os.path.join(REPO, rel)
        if not os.path.exists(p):
            p = os.path.join(VERIF, "support", rel)
        out[rel] = p
    return out


def tree_hash(extra=""):
    h = hashlib.sha256()
    files = sorted(glob.glob(os.path.join(REPO, "src", "*.c")) +
                   glob.glob(os.path.join(REPO, "include", "*.h")) +
                   glob.glob(os.path.join(REPO, "include", "libast", "*.h")) +
                   [os.path.join(REPO, "src", "Makefile.am")] + list(support_headers().values()))
    for f in files:
        h.update(f.encode())
        try:
            h.update(open(f, "rb").read())
        except OSError:
            h.update(b"<missing>")
    h.update(extra.encode())
    return h.hexdigest()[:16]


def include_flags(vdir):
    return ["-I" + vdir, "-I" + REPO, "-I" + os.path.join(REPO, "include"),
            "-I" + os.path.join(REPO, "include", "libast")]


def _prepare_variant_dir(vdir, debug):
    os.makedirs(os.path.join(vdir, "libast"), exist_ok=True)
    sup = support_headers()
    cfg = open(sup["config.h"]).read()
    if debug is not None:
        cfg = re.sub(r"#define DEBUG \d+", "#define DEBUG %d" % debug, cfg)
    with open(os.path.join(vdir, "config.h"), "w") as f:
        f.write(cfg)
    # types.h / sysdefs.h: only needed in the variant dir when the repo copy is missing
    for rel in ("include/libast/types.h", "include/libast/sysdefs.h"):
        if not os.path.exists(os.path.join(REPO, rel)):
            shutil.copy(sup[rel], os.path.join(vdir, "libast", os.path.basename(rel)))


def ensure(variant, quiet=True):
    """Build (or reuse) libast.a for the variant; returns the variant directory."""
    cc, cflags, debug, perfile = VARIANTS[variant]
    key = tree_hash(variant + cc + cflags + str(debug) + repr(sorted(perfile.items())))
    vdir = os.path.join(CACHE, "lib", "%s-%s" % (variant, key))
    lib = os.path.join(vdir, "libast.a")
    if os.path.exists(lib):
        return vdir
    # drop stale builds of this variant (disk hygiene)
    for old in glob.glob(os.path.join(CACHE, "lib", variant + "-*")):
        if re.fullmatch(re.escape(variant) + r"-[0-9a-f]{16}", os.path.basename(old)):
            shutil.rmtree(old, ignore_errors=True)
    tmp = vdir + ".tmp%d" % os.getpid()
    shutil.rmtree(tmp, ignore_errors=True)
    _prepare_variant_dir(tmp, debug)
    srcs = repo_sources()

    def comp(src):
        obj = os.path.join(tmp, src[:-2] + ".o")
        cmd = [cc] + cflags.split() + perfile.get(src, "").split() + \
              ["-DHAVE_CONFIG_H", "-D" + GUARD] + include_flags(tmp) + \
              ["-c", os.path.join(REPO, "src", src), "-o", obj]
        r = subprocess.run(cmd, capture_output=True, text=True)
        return (src, r.returncode, r.stderr, obj)

    with ThreadPoolExecutor(16) as ex:
        res = list(ex.map(comp, srcs))
    bad = [r for r in res if r[1] != 0]
    if bad:
        msg = "\n".join("== %s ==\n%s" % (r[0], r[2]) for r in bad)
        shutil.rmtree(tmp, ignore_errors=True)
        raise RuntimeError("libast build failed for variant %s:\n%s" % (variant, msg))
    subprocess.check_call(["ar", "rcs", os.path.join(tmp, "libast.a")] + [r[3] for r in res])
    for r in res:
        os.unlink(r[3])
    shutil.rmtree(vdir, ignore_errors=True)
    os.rename(tmp, vdir)
    return vdir


if __name__ == "__main__":
    if len(sys.argv) >= 3 and sys.argv[1] == "ensure":
        for v in sys.argv[2:]:
            print(ensure(v))
    else:
        print(__doc__)
