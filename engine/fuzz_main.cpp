// fuzz_main.cpp - libFuzzer driver over the same harnesses (coverage-guided search on top of the generators).
//
// Input = the text form of a case.  Soundness of the input domain: at start-up the driver reads the seed
// corpus (cases dumped from the property's rapidcheck generator plus the committed regression cases) and
// derives a SHAPE per operation name: how many integers and strings it carries, the observed range of every
// integer position, the observed minimum / maximum length and byte alphabet of every string position, and which
// operation opens a case.  A mutated input is normalised into that shape before it is run (unknown
// operations dropped, integers clamped, strings cut and mapped into the alphabet), so the fuzzer explores
// new COMBINATIONS - sequences, contents, lengths - guided by coverage, but never leaves the domain the
// generator was written (and argued) to be sound for.
//
// The semantic oracle is the harness's own run(): the case executes in-process against libast
// (-fsanitize=fuzzer-no-link,address,undefined build) next to the reference model; a failed oracle
// writes the normalised case and aborts, a sanitizer report aborts by itself.  Either way libFuzzer saves
// the input; check.py replays every artifact through the ordinary fork executor three times and only a
// reproducing one becomes a VIOLATION (state leaking between in-process iterations cannot raise an alarm).
#include "engine.hpp"
#include <dirent.h>
#include <fstream>
#include <algorithm>
#include <unistd.h>
#include <fcntl.h>
#include <sys/mman.h>

extern "C" void ht_reset(void);

namespace {
using namespace vt;

struct IntShape { long lo = 0, hi = 0; bool seen = false; };
struct StrShape { size_t minlen = ~(size_t)0; size_t maxlen = 0; bool alpha[256] = {false}; unsigned char first = 0; bool seen = false; };
struct OpShape { size_t min_ints = ~0u, max_ints = 0, min_strs = ~0u, max_strs = 0; std::vector<IntShape> ints; std::vector<StrShape> strs; };
std::map<std::string, OpShape> g_shape;
std::set<std::string> g_heads;          // operation names that open a case
bool g_head_always_same = true;
size_t g_max_ops = 1;
Harness *g_h = nullptr;
std::set<std::string> g_quar;
std::string g_out;

const size_t kCurSz = 1 << 20;
char *g_cur = nullptr;
size_t g_cur_used = 0;
struct FStats { long runs = 0, parsed = 0, ok = 0, failed = 0, nontrivial = 0, evals = 0; std::map<std::string, long> labels; std::set<uint64_t> distinct_nt; std::vector<std::string> samples; } g_st;

std::set<std::string> g_drop;          // operations left to the generator modes (too slow or too stateful to run in-process)
void learn(const Case &c0) {
    Case c;
    for (const Op &op : c0) if (!g_drop.count(op.name)) c.push_back(op);
    if (c.empty()) return;
    g_heads.insert(c[0].name);
    g_max_ops = std::max(g_max_ops, c.size());
    for (const Op &op : c) {
        OpShape &s = g_shape[op.name];
        s.min_ints = std::min(s.min_ints, op.ints.size()); s.max_ints = std::max(s.max_ints, op.ints.size());
        s.min_strs = std::min(s.min_strs, op.strs.size()); s.max_strs = std::max(s.max_strs, op.strs.size());
        if (s.ints.size() < op.ints.size()) s.ints.resize(op.ints.size());
        if (s.strs.size() < op.strs.size()) s.strs.resize(op.strs.size());
        for (size_t k = 0; k < op.ints.size(); k++) {
            IntShape &i = s.ints[k];
            if (!i.seen) { i.lo = i.hi = op.ints[k]; i.seen = true; } else { i.lo = std::min(i.lo, op.ints[k]); i.hi = std::max(i.hi, op.ints[k]); }
        }
        for (size_t k = 0; k < op.strs.size(); k++) {
            StrShape &t = s.strs[k];
            t.maxlen = std::max(t.maxlen, op.strs[k].size());
            t.minlen = std::min(t.minlen, op.strs[k].size());
            for (unsigned char ch : op.strs[k]) { if (!t.seen) { t.first = ch; t.seen = true; } t.alpha[ch] = true; }
        }
    }
}

// -> false if nothing runnable is left
bool normalise(Case &c) {
    Case out;
    for (Op &op : c) {
        auto it = g_shape.find(op.name);
        if (it == g_shape.end()) continue;
        const OpShape &s = it->second;
        if (op.ints.size() > s.max_ints) op.ints.resize(s.max_ints);
        while (op.ints.size() < s.min_ints) op.ints.push_back(s.ints[op.ints.size()].lo);
        for (size_t k = 0; k < op.ints.size(); k++) op.ints[k] = std::min(std::max(op.ints[k], s.ints[k].lo), s.ints[k].hi);
        if (op.strs.size() > s.max_strs) op.strs.resize(s.max_strs);
        while (op.strs.size() < s.min_strs) op.strs.push_back("");
        for (size_t k = 0; k < op.strs.size(); k++) {
            const StrShape &t = s.strs[k];
            if (op.strs[k].size() > t.maxlen) op.strs[k].resize(t.maxlen);
            if (t.minlen != ~(size_t)0 && op.strs[k].size() < t.minlen) op.strs[k].resize(t.minlen, (char)t.first);
            for (char &ch : op.strs[k]) if (!t.alpha[(unsigned char)ch]) ch = (char)t.first;
        }
        out.push_back(op);
        if (out.size() >= g_max_ops) break;
    }
    if (out.empty()) return false;
    // a case opens with one of the operations the generator opens cases with; when the generator always uses
    // the same opener and it is a pure marker (no arguments), supply it
    if (!g_heads.count(out[0].name)) {
        if (g_heads.size() == 1) {
            const std::string &h = *g_heads.begin();
            const OpShape &s = g_shape[h];
            if (s.max_ints == 0 && s.max_strs == 0) { Op o; o.name = h; out.insert(out.begin(), o); }
            else return false;
        } else return false;
    }
    // an opener only ever appears first unless the generator also uses it inside
    c.swap(out);
    return true;
}

void dump_stats() {
    if (g_out.empty()) return;
    std::ofstream f(g_out + "/fuzz-stats-" + std::to_string((long)getpid()) + ".json");
    f << "{\"runs\":" << g_st.runs << ",\"parsed\":" << g_st.parsed << ",\"ok\":" << g_st.ok << ",\"failed\":" << g_st.failed << ",\"evaluations\":" << g_st.evals
      << ",\"nontrivial\":" << g_st.nontrivial << ",\"distinct_nontrivial\":" << g_st.distinct_nt.size() << ",\"labels\":{";
    bool first = true;
    for (auto &kv : g_st.labels) { f << (first ? "" : ",") << "\"" << printable(kv.first, 120) << "\":" << kv.second; first = false; }
    f << "},\"samples\":[";
    for (size_t i = 0; i < g_st.samples.size(); i++) f << (i ? "," : "") << "\"" << hexenc(g_st.samples[i]) << "\"";
    f << "]}\n";
}
}  // namespace

extern "C" int LLVMFuzzerInitialize(int *, char ***) {
    auto &cfg = config();
    auto env = [](const char *n, const char *d) { const char *v = getenv(n); return std::string(v ? v : d); };
    cfg.tier = env("VT_FUZZ_TIER", "quick") == "thorough";
    cfg.scratch_dir = env("VT_FUZZ_SCRATCH", "/tmp");
    g_out = env("VT_FUZZ_OUT", "");
    cfg.out_dir = g_out;
    {   // k=v,k=v
        std::string o = env("VT_FUZZ_OPTS", ""), item;
        std::istringstream is(o);
        while (std::getline(is, item, ',')) { size_t e = item.find('='); if (!item.empty()) cfg.kv[item.substr(0, e)] = e == std::string::npos ? "1" : item.substr(e + 1); }
        std::string q = env("VT_FUZZ_QUARANTINE", "");
        std::istringstream qs(q);
        while (std::getline(qs, item, ',')) if (!item.empty()) g_quar.insert(item);
    }
    { std::string dr = env("VT_FUZZ_DROP", ""), item; std::istringstream ds(dr); while (std::getline(ds, item, ',')) if (!item.empty()) g_drop.insert(item); }
    std::string seeds = env("VT_FUZZ_SHAPE_DIR", "");
    if (DIR *d = opendir(seeds.c_str())) {
        while (dirent *e = readdir(d)) {
            std::string n = e->d_name;
            if (n.size() < 6 || n.substr(n.size() - 5) != ".case") continue;
            std::ifstream f(seeds + "/" + n, std::ios::binary);
            std::stringstream ss; ss << f.rdbuf();
            learn(case_from_text(ss.str()));
        }
        closedir(d);
    }
    if (g_shape.empty()) { fprintf(stderr, "fuzz driver: no shape corpus in '%s'\n", seeds.c_str()); _exit(2); }
    g_h = make_harness();
    if (!g_out.empty()) {
        std::string path = g_out + "/current-" + std::to_string((long)getpid()) + ".case";
        int fd = open(path.c_str(), O_RDWR | O_CREAT | O_TRUNC, 0600);
        if (fd >= 0 && ftruncate(fd, (off_t)kCurSz) == 0) {
            void *m = mmap(nullptr, kCurSz, PROT_READ | PROT_WRITE, MAP_SHARED, fd, 0);
            if (m != MAP_FAILED) { g_cur = (char *)m; memset(g_cur, '\n', kCurSz); }
        }
        if (fd >= 0) close(fd);
    }
    Ctx::inproc().active = true;
    atexit(dump_stats);
    dump_stats();      // a sanitizer abort skips exit handlers: keep a (possibly stale) record on disk from the start
    return 0;
}

extern "C" int LLVMFuzzerTestOneInput(const uint8_t *data, size_t size) {
    g_st.runs++;
    Case c = case_from_text(std::string((const char *)data, size));
    if (!normalise(c)) return -1;
    g_st.parsed++;
    std::string text = case_to_text(c);
    // what is about to run, kept in a file-backed mapping (no system call per input) so that a sanitizer abort leaves
    // the NORMALISED case behind; the raw artifact libFuzzer saves is never replayed
    {
        std::string cur = std::string("# property ") + g_h->property() + " mode fuzz\n" + text;
        if (g_cur && cur.size() + 1 < kCurSz) { memcpy(g_cur, cur.data(), cur.size()); memset(g_cur + cur.size(), '\n', std::min<size_t>(g_cur_used > cur.size() ? g_cur_used - cur.size() : 0, kCurSz - cur.size())); g_cur_used = cur.size(); }
    }
    ht_reset();
    auto &ip = Ctx::inproc();
    ip.done = false; ip.kind.clear(); ip.detail.clear(); ip.nontrivial = false; ip.labels.clear(); ip.evals = 1;
    Ctx ctx(-1, nullptr, 0, g_quar, config().tier);
    try { g_h->run(c, ctx); } catch (Ctx::CaseEnd &) {} catch (std::exception &) { return 0; }
    g_st.evals += ip.evals;
    for (auto &l : ip.labels) g_st.labels[l]++;
    if (!ip.done || ip.kind == "ok" || ip.kind == "skip" || ip.kind == "harness") {
        g_st.ok++;
        if (ip.nontrivial) { g_st.nontrivial++; if (g_st.distinct_nt.insert(fnv64(text)).second && g_st.samples.size() < 6 && text.size() < 1500) g_st.samples.push_back(text); }
        if ((g_st.runs & 0x3ff) == 0) dump_stats();
        return 0;
    }
    g_st.failed++;
    if (!g_out.empty()) {
        char nm[80];
        snprintf(nm, sizeof nm, "/oracle-%016llx.case", (unsigned long long)fnv64(text));
        std::ofstream f(g_out + nm, std::ios::binary);
        f << "# property " << g_h->property() << " mode fuzz\n# " << ip.kind << ": " << printable(ip.detail, 300) << "\n" << text;
    }
    dump_stats();
    fprintf(stderr, "fuzz driver: oracle failed: %s: %s\n", ip.kind.c_str(), printable(ip.detail, 300).c_str());
    abort();
}
