// engine.cpp - fork executor, verdict protocol, evidence counters, CLI.
#include "engine.hpp"

#include <algorithm>
#include <cerrno>
#include <csignal>
#include <fcntl.h>
#include <fstream>
#include <iostream>
#include <poll.h>
#include <sys/mman.h>
#include <sys/stat.h>
#include <sys/time.h>
#include <sys/wait.h>
#include <unistd.h>

extern "C" const char *__asan_default_options() {
    return "exitcode=99:detect_leaks=0:allocator_may_return_null=1:handle_abort=1:"
           "detect_stack_use_after_return=0:malloc_context_size=6:print_legend=0:"
           "print_full_thread_history=0:detect_odr_violation=0:max_free_fill_size=256:"
           "free_fill_byte=223:max_malloc_fill_size=32768:malloc_fill_byte=190";
}
extern "C" const char *__ubsan_default_options() {
    return "print_stacktrace=1:halt_on_error=1:exitcode=98";
}

namespace vt {

// ------------------------------------------------------------------ text helpers
std::string hexenc(const std::string &s) {
    static const char *d = "0123456789abcdef";
    std::string o;
    o.reserve(s.size() * 2);
    for (unsigned char c : s) { o.push_back(d[c >> 4]); o.push_back(d[c & 15]); }
    return o;
}
static std::string hexdec(const std::string &h) {
    std::string o;
    auto v = [](char c) { return c <= '9' ? c - '0' : (c | 32) - 'a' + 10; };
    for (size_t i = 0; i + 1 < h.size(); i += 2) o.push_back((char)((v(h[i]) << 4) | v(h[i + 1])));
    return o;
}
std::string printable(const std::string &s, size_t max) {
    std::string o;
    for (size_t i = 0; i < s.size() && i < max; i++) {
        unsigned char c = s[i];
        if (c == '\\') o += "\\\\";
        else if (c >= 32 && c < 127) o.push_back((char)c);
        else { char b[8]; snprintf(b, sizeof b, "\\x%02x", c); o += b; }
    }
    if (s.size() > max) { char b[32]; snprintf(b, sizeof b, "...(%zu)", s.size()); o += b; }
    return o;
}
uint64_t fnv64(const std::string &s) {
    uint64_t h = 1469598103934665603ULL;
    for (unsigned char c : s) { h ^= c; h *= 1099511628211ULL; }
    return h;
}
std::string op_to_text(const Op &op) {
    std::string t = op.name;
    for (long v : op.ints) { t += ' '; t += std::to_string(v); }
    for (auto &s : op.strs) { t += " x"; t += hexenc(s); }
    return t;
}
std::string case_to_text(const Case &c) {
    std::string t;
    for (auto &op : c) { t += op_to_text(op); t += '\n'; }
    return t;
}
Case case_from_text(const std::string &t) {
    Case c;
    std::istringstream is(t);
    std::string line;
    while (std::getline(is, line)) {
        size_t h = line.find('#');
        if (h != std::string::npos) line.erase(h);
        std::istringstream ls(line);
        std::string tok;
        Op op;
        bool first = true;
        while (ls >> tok) {
            if (first) { op.name = tok; first = false; }
            else if (tok[0] == 'x') op.strs.push_back(hexdec(tok.substr(1)));
            else if (tok[0] == '"') {  // "literal" convenience for hand-written cases (no spaces)
                op.strs.push_back(tok.substr(1, tok.size() >= 2 && tok.back() == '"' ? tok.size() - 2 : std::string::npos));
            } else op.ints.push_back(strtol(tok.c_str(), nullptr, 0));
        }
        if (!first) c.push_back(op);
    }
    return c;
}

static std::string jesc(const std::string &s) {
    std::string o;
    for (unsigned char c : s) {
        switch (c) {
        case '"': o += "\\\""; break;
        case '\\': o += "\\\\"; break;
        case '\n': o += "\\n"; break;
        case '\t': o += "\\t"; break;
        case '\r': o += "\\r"; break;
        default:
            if (c < 32 || c >= 127) { char b[8]; snprintf(b, sizeof b, "\\u%04x", c); o += b; }
            else o.push_back((char)c);
        }
    }
    return o;
}

// ------------------------------------------------------------------ Ctx (child side)
Ctx::Inproc &Ctx::inproc() { static Inproc i; return i; }
void Ctx::send(const std::string &line) {
    if (inproc().active) {
        if (line.size() > 2 && line[0] == 'L') inproc().labels.push_back(line.substr(2));
        else if (line == "N") inproc().nontrivial = true;
        else if (line.size() > 2 && line[0] == 'E') inproc().evals = atol(line.c_str() + 2);
        return;
    }
    std::string l = line;
    for (auto &ch : l) if (ch == '\n') ch = ' ';
    l.push_back('\n');
    const char *p = l.data();
    size_t n = l.size();
    while (n) {
        ssize_t w = ::write(fd_, p, n);
        if (w < 0) { if (errno == EINTR) continue; break; }
        p += w; n -= (size_t)w;
    }
}
void Ctx::label(const std::string &l) { if (seen_.insert("L" + l).second) send("L " + l); }
void Ctx::nontrivial() { if (seen_.insert("N").second) send("N"); }
void Ctx::nontrivial_item(const std::string &fp) { send("I " + fp); }
void Ctx::evals(long n) { send("E " + std::to_string(n)); }
void Ctx::nontrivial_count(long n) { send("C " + std::to_string(n)); }
void Ctx::excluded(const std::string &f) { send("X " + f); }
void Ctx::sample(const std::string &t) { send("S " + hexenc(t)); }
void Ctx::progress(const std::string &sub) {
    if (!progress_) return;
    size_t n = std::min(sub.size(), progress_sz_ - 1);
    memcpy(progress_, sub.data(), n);
    progress_[n] = 0;
}
void Ctx::fail(const std::string &kind, const std::string &detail) {
    if (inproc().active) { inproc().done = true; inproc().kind = kind; inproc().detail = detail; inproc().step = step_; throw CaseEnd(); }
    send("V " + kind + " " + std::to_string(step_) + " " + detail);
    _exit(0);
}
void Ctx::ok() {
    if (inproc().active) { inproc().done = true; inproc().kind = "ok"; throw CaseEnd(); }
    send("V ok -1");
    _exit(0);
}

std::string Result::signature() const {
    // kind + first token group of detail up to ';' (harnesses put the stable part first)
    std::string d = detail.substr(0, detail.find(';'));
    return kind + ":" + d;
}

Config &config() { static Config c; return c; }

// ------------------------------------------------------------------ executor (parent side)
namespace {

int g_errfd = -1;
std::string g_errpath;
char *g_progress = nullptr;
const size_t kProgressSz = 1 << 16;

std::string read_err_file() {
    std::string s;
    if (g_errfd < 0) return s;
    off_t n = lseek(g_errfd, 0, SEEK_END);
    if (n <= 0) return s;
    if (n > 200000) n = 200000;
    s.resize((size_t)n);
    ssize_t r = pread(g_errfd, &s[0], (size_t)n, 0);
    if (r < 0) r = 0;
    s.resize((size_t)r);
    return s;
}

// Condense a sanitizer report to "<tool>: <error kind> in <f0> < <f1> < <f2>; <rest>"
std::string summarize_sanitizer(const std::string &err) {
    std::istringstream is(err);
    std::string line, kind, frames;
    int nframes = 0;
    std::string first_rt;
    while (std::getline(is, line)) {
        size_t p;
        if (kind.empty() && (p = line.find("ERROR: AddressSanitizer: ")) != std::string::npos) {
            std::string k = line.substr(p + 25);
            std::istringstream ks(k);
            ks >> kind;  // e.g. heap-buffer-overflow / SEGV / attempting
            if (kind == "attempting") { std::string w; ks >> w; kind += "-" + w; }
            kind = "asan:" + kind;
            if (k.find("WRITE") != std::string::npos) kind += "";
        } else if (kind.empty() && (p = line.find("runtime error: ")) != std::string::npos) {
            std::string k = line.substr(p + 15);
            // strip variable numbers/addresses
            std::string o;
            for (char c : k) o.push_back((c >= '0' && c <= '9') ? '#' : c);
            o.erase(std::unique(o.begin(), o.end(), [](char a, char b) { return a == '#' && b == '#'; }), o.end());
            kind = "ubsan:" + o.substr(0, 60);
        } else if (kind.empty() && (p = line.find("ERROR: MemorySanitizer: ")) != std::string::npos) {
            std::istringstream ks(line.substr(p + 24));
            ks >> kind;
            kind = "msan:" + kind;
        }
        if (!kind.empty() && nframes < 4) {
            // frame lines look like "    #0 0x... in func file:line:col"
            size_t h = line.find(" in ");
            size_t hash = line.find('#');
            if (hash != std::string::npos && h != std::string::npos && hash < h && line.find("0x") != std::string::npos) {
                std::string rest = line.substr(h + 4);
                std::string fn = rest.substr(0, rest.find(' '));
                if (fn.rfind("__asan", 0) == 0 || fn.rfind("__interceptor", 0) == 0 || fn.rfind("__sanitizer", 0) == 0 ||
                    fn.rfind("__ubsan", 0) == 0 || fn.rfind("__msan", 0) == 0 || fn == "printf_common" ||
                    fn.find("Asan") != std::string::npos || fn.find("asan_") != std::string::npos)
                    continue;
                if (!frames.empty()) frames += "<";
                frames += fn;
                nframes++;
                if (fn == "main") nframes = 4;
            }
            if (nframes > 0 && line.find_first_not_of(" \t") == std::string::npos) nframes = 4;  // end of first stack
        }
    }
    if (kind.empty()) {
        // no sanitizer header; return the first non-empty line
        std::istringstream is2(err);
        while (std::getline(is2, line)) if (!line.empty()) return line.substr(0, 200);
        return "";
    }
    return kind + " in " + frames;
}

struct Stats {
    long evaluations = 0;
    long cases = 0;
    std::map<std::string, long> labels;
    std::map<std::string, long> excluded;
    std::set<uint64_t> nontrivial;
    long enum_nontrivial = 0;
    std::vector<std::pair<uint64_t, std::string>> samples;  // (rank, text)
    std::string first_sample, largest_sample;
    long flaky = 0, inconclusive = 0;
    void add_sample(const std::string &text, uint64_t seed) {
        if (first_sample.empty()) first_sample = text;
        if (text.size() > largest_sample.size() && text.size() < 6000) largest_sample = text;
        uint64_t rank = fnv64(text) ^ (seed * 0x9e3779b97f4a7c15ULL);
        samples.emplace_back(rank, text.size() > 3000 ? text.substr(0, 3000) + "...(truncated)" : text);
        std::sort(samples.begin(), samples.end());
        if (samples.size() > 5) samples.resize(5);
    }
};
Stats g_stats;

struct Failure {
    Case c;
    Result r;
};
std::vector<Failure> g_failures;
bool g_rc_mode = true;  // keep only the last failure (shrinking) vs. first K distinct
Harness *g_h = nullptr;

}  // namespace

Result execute(Harness &h, const Case &c) {
    Result res;
    int p[2];
    if (pipe(p) != 0) { perror("pipe"); exit(2); }
    if (g_errfd >= 0) { if (ftruncate(g_errfd, 0) != 0) {} lseek(g_errfd, 0, SEEK_SET); }
    if (g_progress) g_progress[0] = 0;
    fflush(stdout);
    fflush(stderr);
    int budget = h.hang_budget(config().tier);
    pid_t pid = fork();
    if (pid < 0) { perror("fork"); exit(2); }
    if (pid == 0) {
        close(p[0]);
        if (g_errfd >= 0) { dup2(g_errfd, 2); }
        setpgid(0, 0);
        alarm((unsigned)budget);
        Ctx ctx(p[1], g_progress, kProgressSz, config().quarantine, config().tier);
        try {
            h.run(c, ctx);
        } catch (const std::exception &e) {
            ctx.fail("harness", std::string("exception in harness: ") + e.what());
        } catch (...) {
            ctx.fail("harness", "unknown exception in harness");
        }
        ctx.fail("harness", "run() returned without a verdict");
    }
    close(p[1]);
    std::string buf;
    char tmp[65536];
    bool killed = false;
    struct timeval t0;
    gettimeofday(&t0, nullptr);
    for (;;) {
        struct pollfd pf = {p[0], POLLIN, 0};
        int pr = poll(&pf, 1, 1000);
        if (pr < 0 && errno == EINTR) continue;
        if (pr > 0) {
            ssize_t n = read(p[0], tmp, sizeof tmp);
            if (n > 0) { buf.append(tmp, (size_t)n); continue; }
            if (n < 0 && errno == EINTR) continue;
            break;  // EOF
        }
        struct timeval t1;
        gettimeofday(&t1, nullptr);
        if (t1.tv_sec - t0.tv_sec > budget + 5) { kill(-pid, SIGKILL); kill(pid, SIGKILL); killed = true; break; }
    }
    close(p[0]);
    int st = 0;
    while (waitpid(pid, &st, 0) < 0 && errno == EINTR) {}
    kill(-pid, SIGKILL);  // stray grandchildren, if any

    bool have_verdict = false;
    std::istringstream is(buf);
    std::string line;
    while (std::getline(is, line)) {
        if (line.empty()) continue;
        char t = line[0];
        std::string rest = line.size() > 2 ? line.substr(2) : "";
        if (t == 'L') res.labels.push_back(rest);
        else if (t == 'N') res.nontrivial = true;
        else if (t == 'I') res.nt_items.push_back(rest);
        else if (t == 'E') res.evals += strtol(rest.c_str(), nullptr, 10);
        else if (t == 'C') res.nt_count += strtol(rest.c_str(), nullptr, 10);
        else if (t == 'X') res.excluded.push_back(rest);
        else if (t == 'S') res.samples.push_back(rest);
        else if (t == 'V') {
            std::istringstream vs(rest);
            vs >> res.kind >> res.step;
            std::getline(vs, res.detail);
            if (!res.detail.empty() && res.detail[0] == ' ') res.detail.erase(0, 1);
            have_verdict = true;
        }
    }
    if (g_progress && g_progress[0]) res.subcase = g_progress;
    if (!have_verdict || (WIFSIGNALED(st)) || (WIFEXITED(st) && WEXITSTATUS(st) != 0)) {
        std::string err = read_err_file();
        if (killed || (WIFSIGNALED(st) && WTERMSIG(st) == SIGALRM)) {
            res.kind = "hang";
            res.detail = "no verdict within " + std::to_string(budget) + "s";
        } else if (WIFEXITED(st) && (WEXITSTATUS(st) == 99 || WEXITSTATUS(st) == 98)) {
            res.kind = "sanitizer";
            res.detail = summarize_sanitizer(err);
        } else if (WIFSIGNALED(st)) {
            std::string s = summarize_sanitizer(err);
            if (s.find("asan:") == 0 || s.find("ubsan:") == 0 || s.find("msan:") == 0) { res.kind = "sanitizer"; res.detail = s; }
            else { res.kind = "signal"; res.detail = "signal " + std::to_string(WTERMSIG(st)) + "; " + s; }
        } else if (WIFEXITED(st) && WEXITSTATUS(st) != 0) {
            std::string s = summarize_sanitizer(err);
            if (s.find("asan:") == 0 || s.find("ubsan:") == 0 || s.find("msan:") == 0) { res.kind = "sanitizer"; res.detail = s; }
            else { res.kind = "fatal-exit"; res.detail = "exit " + std::to_string(WEXITSTATUS(st)) + "; " + s; }
        } else if (!have_verdict) {
            res.kind = "harness";
            res.detail = "child ended without verdict";
        }
    }
    if (res.evals > 1) res.evals -= 1;  // batch cases report their own count
    return res;
}

static void write_file(const std::string &path, const std::string &data);
static bool try_case(const Case &c) {
    std::string text = case_to_text(c);
    if (config().kv.count("dumpdir") && g_stats.cases < atol(config().kv.count("dumpmax") ? config().kv["dumpmax"].c_str() : "1000")) {
        char nm[64];
        snprintf(nm, sizeof nm, "/gen-%016llx.case", (unsigned long long)fnv64(text));
        write_file(config().kv["dumpdir"] + nm, text);
    }
    Result r = execute(*g_h, c);
    g_stats.cases++;
    g_stats.evaluations += r.evals;
    for (auto &l : r.labels) g_stats.labels[l]++;
    for (auto &x : r.excluded) g_stats.excluded[x]++;
    if (r.nontrivial) {
        if (g_stats.nontrivial.insert(fnv64(text)).second) g_stats.add_sample(text, config().seed);
    }
    for (auto &i : r.nt_items) g_stats.nontrivial.insert(fnv64(i));
    g_stats.enum_nontrivial += r.nt_count;
    for (auto &s : r.samples) {
        std::string t;
        auto v = [](char ch) { return ch <= '9' ? ch - '0' : (ch | 32) - 'a' + 10; };
        for (size_t k = 0; k + 1 < s.size(); k += 2) t.push_back((char)((v(s[k]) << 4) | v(s[k + 1])));
        g_stats.add_sample(t, config().seed);
    }
    if (!r.failed()) return true;
    if (r.kind == "skip") return true;
    Failure f{c, r};
    if (g_rc_mode) {
        g_failures.clear();
        g_failures.push_back(f);
    } else {
        bool dup = false;
        for (auto &e : g_failures) if (e.r.signature() == r.signature()) dup = true;
        if (!dup && g_failures.size() < 8) g_failures.push_back(f);
    }
    return false;
}

static void write_file(const std::string &path, const std::string &data) {
    std::ofstream f(path, std::ios::binary);
    f << data;
}

static std::string result_json(const Result &r) {
    std::ostringstream o;
    o << "{\"kind\":\"" << jesc(r.kind) << "\",\"step\":" << r.step << ",\"detail\":\"" << jesc(r.detail)
      << "\",\"signature\":\"" << jesc(r.signature()) << "\",\"subcase\":\"" << jesc(r.subcase) << "\"}";
    return o.str();
}

static void write_stats(const std::string &mode, double wall) {
    auto &cfg = config();
    std::ostringstream o;
    o << "{\"property\":\"" << g_h->property() << "\",\"mode\":\"" << mode << "\",\"worker\":" << cfg.worker
      << ",\"seed\":" << cfg.seed << ",\"cases\":" << g_stats.cases << ",\"evaluations\":" << g_stats.evaluations
      << ",\"distinct_nontrivial\":" << (g_stats.nontrivial.size() + (size_t)g_stats.enum_nontrivial)
      << ",\"enum_nontrivial\":" << g_stats.enum_nontrivial << ",\"wall_s\":" << wall << ",\"labels\":{";
    bool first = true;
    for (auto &kv : g_stats.labels) { o << (first ? "" : ",") << "\"" << jesc(kv.first) << "\":" << kv.second; first = false; }
    o << "},\"excluded\":{";
    first = true;
    for (auto &kv : g_stats.excluded) { o << (first ? "" : ",") << "\"" << jesc(kv.first) << "\":" << kv.second; first = false; }
    o << "},\"samples\":[";
    std::vector<std::string> ss;
    if (!g_stats.first_sample.empty()) ss.push_back(g_stats.first_sample);
    if (!g_stats.largest_sample.empty() && g_stats.largest_sample != g_stats.first_sample) ss.push_back(g_stats.largest_sample);
    for (auto &s : g_stats.samples) if (std::find(ss.begin(), ss.end(), s.second) == ss.end()) ss.push_back(s.second);
    first = true;
    for (auto &s : ss) { o << (first ? "" : ",") << "\"" << jesc(s) << "\""; first = false; }
    o << "],\"failures\":[";
    first = true;
    for (size_t i = 0; i < g_failures.size(); i++) {
        o << (first ? "" : ",") << "{\"file\":\"" << jesc(cfg.out_dir + "/fail-" + mode + "-" + std::to_string(cfg.worker) + "-" + std::to_string(i) + ".case")
          << "\",\"result\":" << result_json(g_failures[i].r) << "}";
        first = false;
    }
    o << "]}";
    std::string base = cfg.out_dir + "/worker-" + mode + "-" + std::to_string(cfg.worker);
    write_file(base + ".json", o.str());
    std::string fp;
    for (uint64_t v : g_stats.nontrivial) fp.append((const char *)&v, 8);
    write_file(base + ".fp", fp);
}

static void usage() {
    fprintf(stderr,
            "usage: harness --search [--mode M] [--seed N] [--cases N] [--size N] [--tier quick|thorough]\n"
            "               [--worker K] [--out DIR] [--scratch DIR] [--quarantine a,b] [--opt k=v]\n"
            "       harness --replay FILE [--quarantine a,b] [--tier T]\n");
}

int engine_main(int argc, char **argv) {
    auto &cfg = config();
    std::string mode, replay;
    bool do_search = false;
    for (int i = 1; i < argc; i++) {
        std::string a = argv[i];
        auto next = [&]() -> std::string { if (i + 1 >= argc) { usage(); exit(2); } return argv[++i]; };
        if (a == "--search") do_search = true;
        else if (a == "--replay") replay = next();
        else if (a == "--mode") mode = next();
        else if (a == "--seed") cfg.seed = strtoull(next().c_str(), nullptr, 10);
        else if (a == "--cases") cfg.cases = strtol(next().c_str(), nullptr, 10);
        else if (a == "--size") cfg.max_size = atoi(next().c_str());
        else if (a == "--worker") cfg.worker = atoi(next().c_str());
        else if (a == "--out") cfg.out_dir = next();
        else if (a == "--scratch") cfg.scratch_dir = next();
        else if (a == "--tier") cfg.tier = (next() == "thorough") ? 1 : 0;
        else if (a == "--quarantine") {
            std::string q = next(), item;
            std::istringstream qs(q);
            while (std::getline(qs, item, ',')) if (!item.empty()) cfg.quarantine.insert(item);
        } else if (a == "--opt") {
            std::string kv = next();
            size_t e = kv.find('=');
            cfg.kv[kv.substr(0, e)] = e == std::string::npos ? "1" : kv.substr(e + 1);
        } else { usage(); return 2; }
    }
    g_h = make_harness();
    if (mode.empty()) mode = g_h->modes()[0];
    mkdir(cfg.out_dir.c_str(), 0755);
    mkdir(cfg.scratch_dir.c_str(), 0755);
    g_errpath = cfg.scratch_dir + "/stderr-" + std::to_string(getpid()) + ".txt";
    g_errfd = open(g_errpath.c_str(), O_RDWR | O_CREAT | O_TRUNC, 0600);
    unlink(g_errpath.c_str());
    g_progress = (char *)mmap(nullptr, kProgressSz, PROT_READ | PROT_WRITE, MAP_SHARED | MAP_ANONYMOUS, -1, 0);
    if (g_progress == MAP_FAILED) g_progress = nullptr;
    signal(SIGPIPE, SIG_IGN);

    if (!replay.empty()) {
        std::ifstream f(replay, std::ios::binary);
        if (!f) { fprintf(stderr, "cannot read %s\n", replay.c_str()); return 2; }
        std::stringstream ss;
        ss << f.rdbuf();
        Case c = case_from_text(ss.str());
        Result r = execute(*g_h, c);
        printf("RESULT %s\n", result_json(r).c_str());
        for (auto &l : r.labels) printf("LABEL %s\n", l.c_str());
        for (auto &x : r.excluded) printf("EXCLUDED %s\n", x.c_str());
        printf("NONTRIVIAL %d\n", (int)r.nontrivial);
        return r.failed() ? 1 : 0;
    }
    if (!do_search) { usage(); return 2; }

    struct timeval t0, t1;
    gettimeofday(&t0, nullptr);
    g_rc_mode = (mode.rfind("enum", 0) != 0);
    bool ok = g_h->search(mode, try_case);
    gettimeofday(&t1, nullptr);
    double wall = (t1.tv_sec - t0.tv_sec) + (t1.tv_usec - t0.tv_usec) / 1e6;
    // batch failures: narrow to the sub-case when the harness reported one and it reproduces alone
    for (size_t i = 0; i < g_failures.size(); i++) {
        auto &f = g_failures[i];
        if (!f.r.subcase.empty()) {
            Case sub = case_from_text(f.r.subcase);
            if (!sub.empty()) {
                Result r2 = execute(*g_h, sub);
                if (r2.failed()) { f.c = sub; f.r = r2; f.r.subcase.clear(); }
            }
        }
        write_file(cfg.out_dir + "/fail-" + mode + "-" + std::to_string(cfg.worker) + "-" + std::to_string(i) + ".case",
                   "# property " + std::string(g_h->property()) + " mode " + mode + "\n# " + f.r.kind + ": " + printable(f.r.detail, 300) + "\n" +
                       case_to_text(f.c));
    }
    write_stats(mode, wall);
    if (!ok || !g_failures.empty()) return 1;
    return 0;
}

}  // namespace vt

