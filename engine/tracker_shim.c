/* Linked into every harness: libast's own allocation table as an end-of-case oracle (C15).  Only meaningful on a
 * build with tracking compiled in (DEBUG >= 5) and the accessor hook; -1 otherwise. */
#include "config.h"
#include <libast.h>
#if defined(LIBAST_VERIF) && (DEBUG >= DEBUG_MEM)
extern const spifmem_memrec_t *spifmem_verif_malloc_rec(void);
long vt_tracker_count(void) { return (long) spifmem_verif_malloc_rec()->cnt; }
#else
long vt_tracker_count(void) { return -1; }
#endif
/* the runtime level a shim's init function establishes (0 unless the tracker oracle is on) */
unsigned int vt_base_level = 0;
int vt_tracker_level(int l) { vt_base_level = (unsigned int) l; libast_debug_level = (unsigned int) l; return 1; }
