// main.cpp - entry point of the ordinary (fork-executor) harness binary; the libFuzzer binary links fuzz_main.cpp instead.
#include "engine.hpp"
int main(int argc, char **argv) { return vt::engine_main(argc, argv); }
