// rcglue.hpp - rapidcheck helpers shared by the harnesses (C++ only; no libast headers).
#pragma once
#include <rapidcheck.h>
#include "engine.hpp"

namespace vt {

inline void showValue(const Op &op, std::ostream &os) { os << op_to_text(op); }

// rapidcheck scales inRange with the generation size; choices must not collapse at small sizes.
template <class T> rc::Gen<T> unscaled(rc::Gen<T> g) { return rc::gen::resize(100, std::move(g)); }
inline rc::Gen<long> range(long lo, long hi_incl) { return unscaled(rc::gen::inRange<long>(lo, hi_incl + 1)); }
// size-scaled length in [0, max]
inline rc::Gen<long> sized_len(long max) { return rc::gen::inRange<long>(0, max + 1); }

// string over an alphabet, length scaled by size up to maxlen
inline rc::Gen<std::string> text_over(const std::string &alphabet, long maxlen) {
    return rc::gen::exec([=]() {
        long n = *sized_len(maxlen);
        std::string s;
        s.reserve((size_t)n);
        for (long i = 0; i < n; i++) s.push_back(*rc::gen::elementOf(alphabet));
        return s;
    });
}

inline bool rc_search(const std::string &desc, rc::Gen<Case> g, const std::function<bool(const Case &)> &try_case) {
    auto &cfg = config();
    std::string params = "seed=" + std::to_string(cfg.seed) + " max_success=" + std::to_string(cfg.cases) +
                         " max_size=" + std::to_string(cfg.max_size) + " max_discard_ratio=50";
    if (cfg.kv.count("noshrink")) params += " noshrink=1";
    setenv("RC_PARAMS", params.c_str(), 1);
    return rc::check(desc, [&]() {
        const Case c = *g;
        if (!try_case(c)) RC_FAIL("case failed");
    });
}

}  // namespace vt
