// tracker.hpp - run any stateful harness with libast's own allocation tracker as the end-of-case oracle
// (--opt tracker=1 on a DEBUG>=5 build; used by C15's borrowed modes).
#pragma once
#include "engine.hpp"
extern "C" { long vt_tracker_count(void); int vt_tracker_level(int); }
namespace vt {
inline bool tracker_mode() { return config().kv.count("tracker") > 0; }
// after the shim's init: switch tracking on
inline void tracker_begin(Ctx &ctx) {
    if (!tracker_mode()) return;
    if (vt_tracker_count() < 0) ctx.fail("harness", "tracker oracle requested on a build without tracking");
    vt_tracker_level(5);
}
// after the final deletions: true if the tracker oracle took the place of the heap-balance check
inline bool tracker_final(Ctx &ctx) {
    if (!tracker_mode()) return false;
    vt_tracker_level(5);
    long n = vt_tracker_count();
    if (n != 0) ctx.fail("mismatch", "tracker-not-empty; the library's own allocation table still holds " + std::to_string(n) + " record(s) after every object was deleted");
    ctx.label("tracker-empty-after-deleting-everything");
    return true;
}
}  // namespace vt
