/* heaptrack.c - exact heap-balance oracle on top of ASan's malloc/free hooks.
 * Allocations made while tracking is on (i.e. inside a shim call into libast) are recorded;
 * any free removes the record.  After a case has deleted everything it owns the table must be empty. */
#include <stddef.h>
#include <stdint.h>
#include <stdio.h>
#include <string.h>

extern int __sanitizer_install_malloc_and_free_hooks(void (*malloc_hook)(const volatile void *, size_t),
                                                     void (*free_hook)(const volatile void *));

#define HT_CAP (1u << 16)
struct ht_ent { uintptr_t p; size_t sz; int tag; };
static struct ht_ent ht_tab[HT_CAP];
static unsigned ht_cnt;
static int ht_on, ht_installed, ht_tag_cur, ht_overflow;
static unsigned long ht_total_allocs;

static unsigned ht_slot(uintptr_t p) { return (unsigned)((p >> 4) * 2654435761u) & (HT_CAP - 1); }

static void ht_malloc_hook(const volatile void *ptr, size_t sz)
{
    if (!ht_on || !ptr) return;
    ht_total_allocs++;
    if (ht_cnt >= HT_CAP / 2) { ht_overflow = 1; return; }
    unsigned i = ht_slot((uintptr_t) ptr);
    while (ht_tab[i].p && ht_tab[i].p != (uintptr_t) 1) i = (i + 1) & (HT_CAP - 1);
    ht_tab[i].p = (uintptr_t) ptr; ht_tab[i].sz = sz; ht_tab[i].tag = ht_tag_cur;
    ht_cnt++;
}

static void ht_free_hook(const volatile void *ptr)
{
    if (!ptr || !ht_cnt) return;
    unsigned i = ht_slot((uintptr_t) ptr), n = 0;
    while (ht_tab[i].p && n < HT_CAP) {
        if (ht_tab[i].p == (uintptr_t) ptr) { ht_tab[i].p = (uintptr_t) 1; /* tombstone */ ht_cnt--; return; }
        i = (i + 1) & (HT_CAP - 1); n++;
    }
}

void ht_install(void)
{
    if (!ht_installed) { __sanitizer_install_malloc_and_free_hooks(ht_malloc_hook, ht_free_hook); ht_installed = 1; }
}
void ht_begin(void) { ht_on++; }
void ht_end(void) { if (ht_on > 0) ht_on--; }
void ht_set_tag(int t) { ht_tag_cur = t; }
unsigned ht_live_count(void) { return ht_cnt; }
int ht_overflowed(void) { return ht_overflow; }
unsigned long ht_total(void) { return ht_total_allocs; }
size_t ht_live_bytes(void)
{
    size_t b = 0;
    for (unsigned i = 0; i < HT_CAP; i++) if (ht_tab[i].p > 1) b += ht_tab[i].sz;
    return b;
}
/* describe up to a few live records: "size@step size@step ..." */
int ht_describe(char *buf, size_t n)
{
    size_t off = 0; int shown = 0;
    if (n) buf[0] = 0;
    for (unsigned i = 0; i < HT_CAP && shown < 6; i++) {
        if (ht_tab[i].p > 1) {
            int w = snprintf(buf + off, n - off, "%s%zuB@step%d", shown ? " " : "", ht_tab[i].sz, ht_tab[i].tag);
            if (w < 0 || (size_t) w >= n - off) break;
            off += (size_t) w; shown++;
        }
    }
    return shown;
}
/* forget one block on purpose (e.g. a pointer handed to the harness that is freed outside tracking) */
void ht_forget(const void *p) { ht_free_hook(p); }
/* 1 if every live block is exactly a C string (size == strlen + 1) that ends with `suffix` (used to recognise one
 * known finding precisely: anything else that is still live keeps alarming) */
int ht_live_all_cstr_suffix(const char *suffix)
{
    size_t sl = strlen(suffix);
    for (unsigned i = 0; i < HT_CAP; i++) {
        if (ht_tab[i].p > 1) {
            const char *t = (const char *) ht_tab[i].p;
            size_t sz = ht_tab[i].sz, k;
            if (sz < sl + 1 || t[sz - 1] != 0) return 0;
            for (k = 0; k + 1 < sz; k++) if (!t[k]) return 0;
            if (memcmp(t + sz - 1 - sl, suffix, sl) != 0) return 0;
        }
    }
    return 1;
}
/* in-process (libFuzzer) use: start every input with an empty table */
void ht_reset(void) { memset(ht_tab, 0, sizeof ht_tab); ht_cnt = 0; ht_on = 0; ht_overflow = 0; ht_tag_cur = 0; }
