// engine.hpp - shared PBT engine: case language, fork executor, evidence counters.
// The C++ side never includes a libast header; libast is reached through C shims only.
#pragma once
#include <cstdint>
#include <cstdio>
#include <cstdlib>
#include <cstring>
#include <functional>
#include <map>
#include <set>
#include <sstream>
#include <string>
#include <vector>

namespace vt {

// ---------------------------------------------------------------- case language
struct Op {
    std::string name;
    std::vector<long> ints;
    std::vector<std::string> strs;
    long i(size_t k, long dflt = 0) const { return k < ints.size() ? ints[k] : dflt; }
    const std::string &s(size_t k) const {
        static const std::string empty;
        return k < strs.size() ? strs[k] : empty;
    }
    bool operator==(const Op &o) const { return name == o.name && ints == o.ints && strs == o.strs; }
};
using Case = std::vector<Op>;

std::string op_to_text(const Op &op);
std::string case_to_text(const Case &c);
Case case_from_text(const std::string &t);
std::string hexenc(const std::string &s);
std::string printable(const std::string &s, size_t max = 80);
uint64_t fnv64(const std::string &s);

inline Op mk(const std::string &name, std::vector<long> ints = {}, std::vector<std::string> strs = {}) {
    Op o; o.name = name; o.ints = std::move(ints); o.strs = std::move(strs); return o;
}

// ---------------------------------------------------------------- child-side context
// Everything a running case reports goes through Ctx (a pipe to the parent).
class Ctx {
  public:
    explicit Ctx(int fd, char *progress, size_t progress_sz, const std::set<std::string> &quar, int tier)
        : fd_(fd), progress_(progress), progress_sz_(progress_sz), quar_(quar), tier_(tier) {}
    void label(const std::string &l);              // class hit (counted once per case)
    void nontrivial();                             // mark the whole case non-trivial
    void nontrivial_item(const std::string &fp);   // batch mode: one distinct non-trivial item
    void nontrivial_count(long n);                 // batch mode: n distinct (by construction) non-trivial items
    void evals(long n);                            // batch mode: n evaluations inside this case
    void excluded(const std::string &finding);     // an op skipped by a quarantine predicate
    bool quarantined(const std::string &name) const { return quar_.count(name) != 0; }
    void progress(const std::string &subcase);     // batch mode: text of the sub-case now running
    void step(int s) { step_ = s; }
    int step() const { return step_; }
    int tier() const { return tier_; }             // 0 quick, 1 thorough
    [[noreturn]] void fail(const std::string &kind, const std::string &detail);
    void ok();                                     // final verdict ok (child then exits 0)
    void sample(const std::string &text);          // batch mode: an example sub-case for evidence
    // in-process use (libFuzzer driver): verdicts are thrown instead of ending the process, reports are collected here
    struct Inproc { bool active = false; bool done = false; std::string kind, detail; int step = -1; bool nontrivial = false; std::vector<std::string> labels; long evals = 1; };
    static Inproc &inproc();
    struct CaseEnd {};
  private:
    void send(const std::string &line);
    int fd_;
    char *progress_;
    size_t progress_sz_;
    const std::set<std::string> &quar_;
    int tier_;
    int step_ = -1;
    std::set<std::string> seen_;
};

#define VT_CHECK(ctx, cond, kind, detail)                                                          \
    do {                                                                                           \
        if (!(cond)) {                                                                             \
            std::ostringstream _os;                                                                \
            _os << detail;                                                                         \
            (ctx).fail(kind, _os.str());                                                           \
        }                                                                                          \
    } while (0)

// ---------------------------------------------------------------- harness interface
struct Result {
    std::string kind;    // ok | mismatch | invariant | sanitizer | signal | fatal-exit | leak | hang | ...
    std::string detail;  // first line: human detail; for sanitizer: kind + top frames
    int step = -1;
    std::string subcase; // batch mode: the sub-case running when the child died / failed
    std::vector<std::string> labels;
    std::vector<std::string> excluded;
    std::vector<std::string> nt_items;
    std::vector<std::string> samples;
    long evals = 1;
    long nt_count = 0;
    bool nontrivial = false;
    bool failed() const { return kind != "ok"; }
    std::string signature() const;
};

struct Harness {
    virtual ~Harness() {}
    virtual const char *property() const = 0;
    // run one case in the (already forked) child; must end in ctx.ok() or ctx.fail()
    virtual void run(const Case &c, Ctx &ctx) = 0;
    // rapidcheck-driven search: call the supplied callback with each generated case; the engine
    // supplies try_case which forks+runs+records and returns true when the case passed.
    // Implemented in the harness TU because it needs rapidcheck generators.
    virtual bool search(const std::string &mode, const std::function<bool(const Case &)> &try_case) = 0;
    // the modes this harness supports in search (e.g. "hist", "enum"); first is default
    virtual std::vector<std::string> modes() const { return {"main"}; }
    // seconds before a child is declared hung
    virtual int hang_budget(int tier) const { return tier ? 30 : 10; }
    // rule text for evidence
    virtual const char *rule() const = 0;
    // labels that must be hit at least once per (whole) run, else the check is broken
    virtual std::vector<std::string> mandatory(const std::string &mode) const { return {}; }
};

Harness *make_harness();  // defined by each props/Cxx/harness.cpp

// helper for harness search(): run rc::check over a Case generator (declared in rcglue.hpp)

// engine main
int engine_main(int argc, char **argv);

// configuration visible to harness code (set from the command line before search/run)
struct Config {
    int tier = 0;
    uint64_t seed = 1;
    int worker = 0;
    long cases = 1000;
    int max_size = 100;
    std::string out_dir = ".";
    std::string scratch_dir = "/tmp";
    std::set<std::string> quarantine;
    std::map<std::string, std::string> kv;  // free-form --opt k=v
};
Config &config();

}  // namespace vt
