// latrack.hpp - heap-balance tracking is on only while a shim call into libast is running.
#pragma once
#include <cstddef>
extern "C" {
void ht_install(void); void ht_begin(void); void ht_end(void); void ht_set_tag(int);
unsigned ht_live_count(void); size_t ht_live_bytes(void); int ht_describe(char *, size_t); int ht_overflowed(void);
unsigned long ht_total(void); void ht_forget(const void *); int ht_live_all_cstr_suffix(const char *);
}
template <class T> static inline T vt_la_end(T v) { ht_end(); return v; }
#define LA(call) (ht_begin(), vt_la_end(call))
