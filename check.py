#!/usr/bin/env python3
"""check.py Cxx [--tier quick|thorough] [--seed N] [--replay FILE]

Driver: build libast from /repo's working tree -> link the property's harness -> replay the committed
corpus -> generated search (rapidcheck / enumeration / libFuzzer) -> evidence/Cxx.json ->
`VIOLATION property=Cxx replay=<path>` (exit 1) | `KNOWN-FINDING: ...` lines (exit 0) | exit 2 when the
check itself is broken (never reported as a violation)."""
import argparse, glob, hashlib, json, os, re, shutil, struct, subprocess, sys, time

VERIF = os.path.dirname(os.path.abspath(__file__))
sys.path.insert(0, VERIF)
import build, setup  # noqa: E402

PROGRAM_OPTS = []
LIBS = "-lfreetype -lX11 -lSM -lICE -lpcre -ldl -lm -lpthread".split()
DEFAULT_SEED = 20261003


def log(*a):
    print(*a, file=sys.stderr, flush=True)


def load_prop(prop):
    p = os.path.join(VERIF, "props", prop, "prop.json")
    return json.load(open(p))


def load_known():
    p = os.path.join(VERIF, "known_findings.json")
    if not os.path.exists(p):
        return {"open": [], "fixed": []}
    return json.load(open(p))


def sh(cmd, **kw):
    return subprocess.run(cmd, capture_output=True, text=True, **kw)


GENERATED = {}


def run_generator(prop, cfg):
    """prop.json "generate": "<module>.py" in the property directory with generate(repo, out_dir) -> {opt: path}.
    Generated sources land in the cache (per tree) and are on the shim include path."""
    if "generate" not in cfg or prop in GENERATED:
        return GENERATED.get(prop)
    import importlib.util
    path = os.path.join(VERIF, "props", prop, cfg["generate"])
    spec = importlib.util.spec_from_file_location("gen_" + prop, path)
    mod = importlib.util.module_from_spec(spec)
    spec.loader.exec_module(mod)
    out_dir = os.path.join(build.CACHE, "gen", prop)
    shutil.rmtree(out_dir, ignore_errors=True)
    opts = mod.generate(build.REPO, out_dir)
    GENERATED[prop] = (out_dir, opts)
    return GENERATED[prop]


def link_harness(prop, cfg, variant, extra_key="", fuzz=False):
    """Compile the C shims against the freshly built libast variant and link the harness binary
    (fuzz=True: the libFuzzer driver engine/fuzz_main.cpp takes the place of engine/main.cpp)."""
    vdir = build.ensure(variant)
    if fuzz:
        extra_key += "|fuzz"
    gen = run_generator(prop, cfg)
    gen_inc = []
    if gen:
        gen_inc = ["-I" + gen[0]]
        extra_key += "".join(open(f).read() for f in sorted(glob.glob(os.path.join(gen[0], "*.inc"))))
    objs = setup.ensure_objects([prop])
    skip = "main.cpp" if fuzz else "fuzz_main.cpp"
    objs = {k: v for k, v in objs.items() if os.path.basename(k) != skip}
    pdir = os.path.join(VERIF, "props", prop)
    shim_srcs = sorted(glob.glob(os.path.join(pdir, "shim*.c"))) + [os.path.join(VERIF, "engine", "tracker_shim.c")]
    cc, cflags, _dbg, _pf = build.VARIANTS[variant]
    incs = sorted(glob.glob(os.path.join(VERIF, "engine", "*.inc")) + glob.glob(os.path.join(pdir, "*.inc")) + glob.glob(os.path.join(pdir, "*.h")))
    key_src = "".join(open(s).read() for s in shim_srcs + incs) + vdir + " ".join(sorted(objs.values())) + extra_key + \
        json.dumps(cfg.get("link", {}), sort_keys=True)
    key = hashlib.sha256(key_src.encode()).hexdigest()[:16]
    tagv = variant + ("+fuzz" if fuzz else "")
    bdir = os.path.join(build.CACHE, "bin", "%s-%s-%s" % (prop, tagv, key))
    exe = os.path.join(bdir, "harness")
    if os.path.exists(exe):
        return exe
    for old in glob.glob(os.path.join(build.CACHE, "bin", "%s-%s-*" % (prop, tagv))):
        shutil.rmtree(old, ignore_errors=True)
    os.makedirs(bdir, exist_ok=True)
    shim_objs = []
    for s in shim_srcs:
        o = os.path.join(bdir, os.path.basename(s)[:-2] + ".o")
        cmd = [cc] + cflags.split() + ["-DHAVE_CONFIG_H", "-D" + build.GUARD] + build.include_flags(vdir) + \
              ["-I" + os.path.join(VERIF, "engine")] + gen_inc + ["-c", s, "-o", o]
        r = sh(cmd)
        if r.returncode != 0:
            raise RuntimeError("shim compile failed: %s\n%s" % (s, r.stderr))
        shim_objs.append(o)
    link = cfg.get("link", {})
    san = [f for f in cflags.split() if f.startswith("-fsanitize") or f.startswith("-fno-sanitize")]
    if fuzz:
        san = [f.replace("fuzzer-no-link", "fuzzer") for f in san]
        if not any("fuzzer" in f for f in san):
            san.append("-fsanitize=fuzzer")
    cmd = ["clang++"] + san + list(objs.values()) + shim_objs + [os.path.join(vdir, "libast.a")] + \
          ["-lrapidcheck"] + LIBS + link.get("ldflags", [])
    r = sh(cmd + ["-o", exe])
    if r.returncode != 0:
        raise RuntimeError("link failed:\n%s\n%s" % (" ".join(cmd), r.stderr))
    return exe


def build_programs(prop, cfg):
    """Auxiliary C programs (prop.json "programs": [{name, source, variant}]) built against a libast variant."""
    out = {}
    for pr in cfg.get("programs", []):
        vdir = build.ensure(pr["variant"])
        cc, cflags, _d, _pf = build.VARIANTS[pr["variant"]]
        src = os.path.join(VERIF, "props", prop, pr["source"])
        key = hashlib.sha256((open(src).read() + vdir + pr["variant"]).encode()).hexdigest()[:12]
        exe = os.path.join(build.CACHE, "bin", "%s-prog-%s-%s" % (prop, pr["name"], key))
        if not os.path.exists(exe):
            for old in glob.glob(os.path.join(build.CACHE, "bin", "%s-prog-%s-*" % (prop, pr["name"]))):
                os.unlink(old)
            os.makedirs(os.path.dirname(exe), exist_ok=True)
            cmd = [cc] + cflags.split() + ["-DHAVE_CONFIG_H", "-D" + build.GUARD] + build.include_flags(vdir) + [src, os.path.join(vdir, "libast.a")] + LIBS + ["-o", exe]
            r = sh(cmd)
            if r.returncode != 0:
                raise RuntimeError("program build failed: %s\n%s" % (pr["name"], r.stderr))
        out[pr["name"]] = exe
    return out


def run_replay(exe, path, quarantine, tier, scratch):
    opts = []
    if isinstance(exe, tuple):      # (binary, per-mode options)
        exe, opts = exe
    cmd = [exe, "--replay", path, "--tier", tier, "--scratch", scratch] + PROGRAM_OPTS + opts
    if quarantine:
        cmd += ["--quarantine", ",".join(quarantine)]
    r = sh(cmd, timeout=600)
    res = None
    for line in r.stdout.splitlines():
        if line.startswith("RESULT "):
            try:
                res = json.loads(line[7:])
            except Exception:
                res = None
    if res is None:
        res = {"kind": "harness", "detail": "replay produced no RESULT: " + r.stderr[-300:], "signature": "harness:"}
    return res


def merge_fp(paths):
    s = set()
    for p in paths:
        try:
            data = open(p, "rb").read()
        except OSError:
            continue
        for (v,) in struct.iter_unpack("<Q", data[:len(data) // 8 * 8]):
            s.add(v)
    return s


def main():
    ap = argparse.ArgumentParser()
    ap.add_argument("prop")
    ap.add_argument("--tier", default=os.environ.get("VERIF_TIER", "quick"))
    ap.add_argument("--seed", type=int, default=int(os.environ.get("VERIF_SEED", DEFAULT_SEED) or DEFAULT_SEED))
    ap.add_argument("--replay")
    ap.add_argument("--keep", action="store_true")
    ap.add_argument("--noevidence", action="store_true", help="do not rewrite evidence/ (mutation self-tests)")
    ap.add_argument("--modes", default="")
    ap.add_argument("--scale", type=float, default=1.0, help="multiply case counts (debugging aid)")
    args = ap.parse_args()
    prop = args.prop
    tier = "thorough" if args.tier.startswith("t") else "quick"
    t0 = time.time()
    try:
        cfg = load_prop(prop)
    except Exception as e:
        log("broken check: cannot load props/%s/prop.json: %s" % (prop, e))
        return 2
    custom = cfg.get("driver")
    if custom:
        # properties with their own driver module (enumerated matrices, fuzz campaigns)
        import importlib.util
        spec = importlib.util.spec_from_file_location("drv_" + prop, os.path.join(VERIF, "props", prop, custom))
        mod = importlib.util.module_from_spec(spec)
        spec.loader.exec_module(mod)
        return mod.main(args, cfg, sys.modules[__name__])
    return generic_main(args, cfg, prop, tier, t0)


def generic_main(args, cfg, prop, tier, t0, extra_evidence=None):
    known = load_known()
    open_f = [f for f in known.get("open", []) if f["property"] == prop]
    quarantine = sorted(set(f["quarantine"] for f in open_f if f.get("quarantine")))
    run_dir = os.path.join(VERIF, ".run", "%s-%d" % (prop, os.getpid()))
    shutil.rmtree(run_dir, ignore_errors=True)
    os.makedirs(run_dir)
    scratch = os.path.join(run_dir, "scratch")
    os.makedirs(scratch)
    rc = 2
    try:
        rc = _generic(args, cfg, prop, tier, t0, known, open_f, quarantine, run_dir, scratch, extra_evidence)
    except RuntimeError as e:
        log("broken check (%s): %s" % (prop, e))
        rc = 2
    finally:
        if not args.keep:
            shutil.rmtree(run_dir, ignore_errors=True)
    return rc


def _generic(args, cfg, prop, tier, t0, known, open_f, quarantine, run_dir, scratch, extra_evidence):
    modes = cfg["modes"]
    if args.modes:
        modes = {k: v for k, v in modes.items() if k in args.modes.split(",")}
    # a mode may borrow another property's harness ("harness_from": "C01", "harness_mode": "main") and run it on this
    # property's build variant with its own options - the verdicts count for THIS property
    exes = {}
    foreign_cfg = {}

    def ekey(m):
        if m.get("engine") == "libfuzzer":     # seeds and replays of a fuzz mode run on the ordinary fork-executor binary
            return (m.get("harness_from", prop), m.get("seed_variant", "asan"))
        return (m.get("harness_from", prop), m.get("variant", "asan"))

    def mode_opts(m):
        o = []
        for kk, vv in m.get(tier, {}).get("opt", {}).items():
            o += ["--opt", "%s=%s" % (kk, vv)]
        return o

    for mname, m in modes.items():
        if ekey(m) not in exes:
            hp = ekey(m)[0]
            if hp != prop and hp not in foreign_cfg:
                foreign_cfg[hp] = json.load(open(os.path.join(VERIF, "props", hp, "prop.json")))
            exes[ekey(m)] = link_harness(hp, cfg if hp == prop else foreign_cfg[hp], ekey(m)[1])
    first = modes[next(iter(modes))]
    default_exe = (exes[ekey(first)], mode_opts(first))

    def exe_for_case(path):
        head = open(path, errors="replace").read(300)
        mm = re.search(r"# property (\S+) mode (\S+)", head)
        if mm:
            for mname, m in modes.items():
                if m.get("harness_from", prop) == mm.group(1) and m.get("harness_mode", mname) == mm.group(2):
                    return (exes[ekey(m)], mode_opts(m))
            for mname, m in modes.items():
                if mname == mm.group(2) and "harness_from" not in m:
                    return (exes[ekey(m)], mode_opts(m))
        return default_exe
    programs = build_programs(prop, cfg)
    global PROGRAM_OPTS
    PROGRAM_OPTS = []
    for kname, kpath in programs.items():
        PROGRAM_OPTS += ["--opt", "%s=%s" % (kname, kpath)]
    if prop in GENERATED:
        for kname, kpath in GENERATED[prop][1].items():
            PROGRAM_OPTS += ["--opt", "%s=%s" % (kname, kpath)]

    # ---------------- single replay
    if args.replay:
        res = run_replay(exe_for_case(args.replay), args.replay, quarantine, tier, scratch)
        print("RESULT " + json.dumps(res))
        if res["kind"] == "ok" or res["kind"] == "skip":
            return 0
        if res["kind"] == "harness":
            return 2
        print("VIOLATION property=%s replay=%s" % (prop, os.path.abspath(args.replay)))
        return 1

    violations = []   # (path, result)
    known_lines = []
    notes = []
    broken = []

    # ---------------- corpus replay: regression cases must pass; known-finding repros must still fail
    corpus = sorted(glob.glob(os.path.join(VERIF, "corpus", prop, "*.case")))
    repro_paths = {os.path.abspath(os.path.join(VERIF, f["repro"])): f for f in open_f if f.get("repro")}
    corpus_ran = 0
    for path in corpus:
        ap_ = os.path.abspath(path)
        if ap_ in repro_paths:
            continue
        res = run_replay(exe_for_case(path), path, quarantine, tier, scratch)
        corpus_ran += 1
        if res["kind"] == "harness":
            broken.append("corpus case %s: %s" % (path, res["detail"]))
        elif res["kind"] not in ("ok", "skip"):
            violations.append((path, res))
    for ap_, f in repro_paths.items():
        res = run_replay(exe_for_case(ap_), ap_, [], tier, scratch)   # without quarantine: must still fail
        if res["kind"] in ("ok", "skip"):
            notes.append("NOTE: known finding %s no longer reproduces (%s)" % (f["id"], f["repro"]))
        elif re.search(f["signature_regex"], res.get("signature", "")):
            known_lines.append("KNOWN-FINDING: property=%s %s [%s]" % (prop, f["what"], f["id"]))
        else:
            violations.append((ap_, res))

    # ---------------- generated search
    worker_procs = []
    worker_env = {}
    for mname, m in modes.items():
        t = m[tier]
        exe = exes[ekey(m)]
        nworkers = int(t.get("workers", 12))
        if m.get("engine") == "libfuzzer":
            # (a) shape + seed corpus: cases dumped from the rapidcheck generators of the sibling modes, plus this
            #     property's committed regression cases of those modes
            shape = os.path.join(run_dir, "shape-" + mname)
            os.makedirs(shape, exist_ok=True)
            for sm in m["seed_modes"]:
                sd = os.path.join(run_dir, "seedgen-%s-%s" % (mname, sm))
                r = sh([exe, "--search", "--mode", sm, "--seed", str(args.seed * 100 + 97), "--cases", str(t.get("seed_cases", 400)),
                        "--size", str(t.get("size", 60)), "--tier", tier, "--worker", "0", "--out", sd, "--scratch", os.path.join(scratch, "seedgen-" + sm),
                        "--opt", "dumpdir=" + shape, "--opt", "dumpmax=%d" % t.get("seed_cases", 400), "--opt", "nworkers=1"] + PROGRAM_OPTS +
                       (["--quarantine", ",".join(quarantine)] if quarantine else []), timeout=1200)
            for cpath in sorted(glob.glob(os.path.join(VERIF, "corpus", prop, "*.case"))):
                mm = re.search(r"# property \S+ mode (\S+)", open(cpath, errors="replace").read(300))
                if mm and mm.group(1) in m["seed_modes"]:
                    shutil.copy(cpath, os.path.join(shape, "corpus-" + os.path.basename(cpath)))
            if not glob.glob(os.path.join(shape, "*.case")):
                broken.append("fuzz mode %s: no seed cases were produced" % mname)
                continue
            fexe = link_harness(m.get("harness_from", prop), cfg, m.get("variant", "asan-fuzz"), fuzz=True)
            for k in range(nworkers):
                out = os.path.join(run_dir, "out-%s-%d" % (mname, k))
                work = os.path.join(out, "units")
                os.makedirs(work, exist_ok=True)
                cmd = [fexe, "-runs=%d" % max(1, int(t["cases"] * args.scale)), "-seed=%d" % (args.seed * 100 + k + 1), "-max_len=%d" % t.get("max_len", 4096),
                       "-timeout=%d" % t.get("timeout", 30), "-rss_limit_mb=4000", "-print_final_stats=1", "-artifact_prefix=" + out + "/", work, shape]
                worker_env[(mname, k)] = dict(os.environ, VT_FUZZ_TIER=tier, VT_FUZZ_SCRATCH=os.path.join(scratch, "%s-%d" % (mname, k)), VT_FUZZ_OUT=out,
                                              VT_FUZZ_SHAPE_DIR=shape, VT_FUZZ_QUARANTINE=",".join(quarantine), VT_FUZZ_DROP=",".join(m.get("drop_ops", [])),
                                              VT_FUZZ_OPTS=",".join(["%s=%s" % kv for kv in t.get("opt", {}).items()] +
                                                                    [PROGRAM_OPTS[i + 1] for i in range(0, len(PROGRAM_OPTS), 2)]))
                os.makedirs(os.path.join(scratch, "%s-%d" % (mname, k)), exist_ok=True)
                worker_procs.append((mname, k, out, cmd))
            continue
        for k in range(nworkers):
            out = os.path.join(run_dir, "out-%s-%d" % (mname, k))
            cmd = [exe, "--search", "--mode", m.get("harness_mode", mname), "--seed", str(args.seed * 100 + k + 1), "--cases",
                   str(max(1, int(t["cases"] * args.scale))), "--size", str(t.get("size", 100)), "--tier", tier,
                   "--worker", str(k), "--out", out, "--scratch", os.path.join(scratch, "%s-%d" % (mname, k))]
            if quarantine:
                cmd += ["--quarantine", ",".join(quarantine)]
            cmd += ["--opt", "nworkers=%d" % nworkers] + PROGRAM_OPTS
            for kk, vv in t.get("opt", {}).items():
                cmd += ["--opt", "%s=%s" % (kk, vv)]
            worker_procs.append((mname, k, out, cmd))
    # run at most 16 at a time
    running = []
    pending = list(worker_procs)
    done = []
    maxpar = int(cfg.get("parallel", 16))
    budget = cfg.get("wall_guard_s", {"quick": 900, "thorough": 7200})[tier]
    inconclusive = 0
    while pending or running:
        while pending and len(running) < maxpar:
            w = pending.pop(0)
            os.makedirs(w[2], exist_ok=True)
            lf = open(os.path.join(w[2], "log.txt"), "w")
            wenv = dict(worker_env.get((w[0], w[1])) or os.environ)
            wenv["TMPDIR"] = os.path.join(scratch, "tmp")      # whatever libast's temp-file helper creates lands in the run directory
            os.makedirs(wenv["TMPDIR"], exist_ok=True)
            p = subprocess.Popen(w[3], stdout=lf, stderr=subprocess.STDOUT, env=wenv)
            running.append((w, p, lf, time.time()))
        time.sleep(0.05)
        still = []
        for (w, p, lf, ts) in running:
            r = p.poll()
            if r is None:
                if time.time() - ts > budget:
                    p.kill()
                    inconclusive += 1
                    lf.close()
                    done.append((w, -9))
                else:
                    still.append((w, p, lf, ts))
            else:
                lf.close()
                done.append((w, r))
        running = still

    total_eval = 0
    enum_nt = 0
    total_cases = 0
    labels = {}
    excluded = {}
    samples = []
    fp_files = []
    per_mode = {}
    fuzz_distinct = [0]
    fuzz_state = {}
    for (w, r) in done:
        mname, k, out, cmd = w
        if modes[mname].get("engine") == "libfuzzer":
            sj = sorted(glob.glob(os.path.join(out, "fuzz-stats-*.json")))
            if sj:
                st = json.load(open(sj[-1]))
            else:   # a sanitizer abort skips the driver's exit handler: the candidate below still counts
                st = {"evaluations": 0, "parsed": 0, "distinct_nontrivial": 0, "labels": {}, "samples": []}
                if r in (0, -9) or not glob.glob(os.path.join(out, "crash-*")):
                    if r != -9:
                        broken.append("fuzz worker %s/%d left no statistics (exit %s): %s" % (mname, k, r, open(os.path.join(out, "log.txt"), errors="replace").read()[-500:]))
                    continue
            pm = per_mode.setdefault(mname, {"evaluations": 0, "cases": 0, "labels": {}})
            fz = fuzz_state.setdefault(mname, {"parsed": 0, "abnormal": 0})
            fz["parsed"] += st["parsed"]
            if r not in (0, -9):
                fz["abnormal"] += 1
            total_eval += st["evaluations"]; total_cases += st["parsed"]
            pm["evaluations"] += st["evaluations"]; pm["cases"] += st["parsed"]
            fuzz_distinct[0] += st["distinct_nontrivial"]
            units = len(os.listdir(os.path.join(out, "units")))
            for l, c in list(st["labels"].items()) + [("fuzz:inputs-run", st["parsed"]), ("fuzz:units-kept-for-new-coverage", units)]:
                labels[l] = labels.get(l, 0) + c
                pm["labels"][l] = pm["labels"].get(l, 0) + c
            if k < 2:
                samples += [bytes.fromhex(x).decode("latin-1") for x in st["samples"][:2]]
            # candidates: oracle failures written by the driver; for a sanitizer abort the normalised case that was running
            cands = sorted(glob.glob(os.path.join(out, "oracle-*.case")))
            if r not in (0, -9) and not cands:
                art = [a for a in os.listdir(out) if a.startswith(("crash-", "leak-"))]
                if art:
                    cands = sorted(glob.glob(os.path.join(out, "current-*.case")))
                elif any(a.startswith(("timeout-", "oom-", "slow-unit-")) for a in os.listdir(out)):
                    inconclusive += 1
                else:
                    broken.append("fuzz worker %s/%d ended with status %s: %s" % (mname, k, r, open(os.path.join(out, "log.txt"), errors="replace").read()[-500:]))
            for fpath in cands:
                exe = (exes[ekey(modes[mname])], mode_opts(modes[mname]))
                reps = [run_replay(exe, fpath, quarantine, tier, scratch) for _ in range(3)]
                if any(rr["kind"] == "harness" for rr in reps):
                    broken.append("fuzz candidate %s: harness error on replay: %s" % (fpath, reps[0].get("detail", "")[:200]))
                elif all(rr["kind"] not in ("ok", "skip") for rr in reps):
                    if reps[0]["kind"] == "hang" and not cfg.get("termination_in_statement", False):
                        inconclusive += 1
                    else:
                        violations.append((fpath, reps[0]))
                else:
                    labels["flaky_discarded"] = labels.get("flaky_discarded", 0) + 1
            continue
        emode = modes[mname].get("harness_mode", mname)
        js = os.path.join(out, "worker-%s-%d.json" % (emode, k))
        if not os.path.exists(js):
            if r == -9:
                continue
            tail = open(os.path.join(out, "log.txt")).read()[-600:]
            broken.append("worker %s/%d produced no stats (exit %s): %s" % (mname, k, r, tail))
            continue
        st = json.load(open(js))
        total_eval += st["evaluations"]
        enum_nt += st.get("enum_nontrivial", 0)
        total_cases += st["cases"]
        pm = per_mode.setdefault(mname, {"evaluations": 0, "cases": 0, "labels": {}})
        pm["evaluations"] += st["evaluations"]
        pm["cases"] += st["cases"]
        for l, c in st["labels"].items():
            labels[l] = labels.get(l, 0) + c
            pm["labels"][l] = pm["labels"].get(l, 0) + c
        for l, c in st["excluded"].items():
            excluded[l] = excluded.get(l, 0) + c
        if k < 3:
            samples += st["samples"][:3]
        fp_files.append(os.path.join(out, "worker-%s-%d.fp" % (emode, k)))
        for f in st["failures"]:
            fpath = f["file"]
            res = f["result"]
            if res["kind"] == "harness":
                broken.append("harness error in %s: %s" % (fpath, res["detail"]))
                continue
            # replay three times; all must fail the same way to count
            exe = (exes[ekey(modes[mname])], mode_opts(modes[mname]))
            reps = [run_replay(exe, fpath, quarantine, tier, scratch) for _ in range(3)]
            if all(rr["kind"] not in ("ok", "skip", "harness") for rr in reps):
                res = reps[0]
                if res["kind"] == "hang" and not cfg.get("termination_in_statement", False):
                    inconclusive += 1
                    continue
                violations.append((fpath, res))
            else:
                labels["flaky_discarded"] = labels.get("flaky_discarded", 0) + 1
    distinct = len(merge_fp(fp_files)) + enum_nt + fuzz_distinct[0]

    # ---------------- classify violations against known findings
    final = []
    seen_sig = set()
    for (path, res) in violations:
        sig = res.get("signature", res["kind"])
        kf = None
        for f in open_f:
            if re.search(f["signature_regex"], sig):
                kf = f
        if kf:
            line = "KNOWN-FINDING: property=%s %s [%s]" % (prop, kf["what"], kf["id"])
            if line not in known_lines:
                known_lines.append(line)
            continue
        if sig in seen_sig:
            continue
        seen_sig.add(sig)
        rdir = os.path.join(VERIF, "replays", prop) if build.REPO == "/repo" else os.path.join(build.CACHE, "replays", prop)
        os.makedirs(rdir, exist_ok=True)
        dst = os.path.join(rdir, "%s-%s.case" % (tier, hashlib.sha256(sig.encode()).hexdigest()[:10]))
        if os.path.abspath(path) != os.path.abspath(dst):
            shutil.copy(path, dst)
        final.append((dst, res))

    # ---------------- mandatory classes
    missing = []
    for mname, m in modes.items():
        have = per_mode.get(mname, {}).get("labels", {})
        for l in m.get("mandatory", []):
            if have.get(l, 0) == 0:
                missing.append("%s:%s" % (mname, l))
    if missing and not final:
        broken.append("mandatory classes never generated: " + ", ".join(missing))
    for mname, fz in fuzz_state.items():
        # a fuzz mode that ran nothing is a broken check - unless its workers stopped on a candidate (reported above or discarded as flaky)
        if fz["parsed"] == 0 and not fz["abnormal"] and not final:
            broken.append("fuzz mode %s ran no input" % mname)

    # ---------------- evidence
    ev = {
        "property_id": prop, "tier": tier, "seed": args.seed, "level": cfg.get("manifest", {}).get("category", "exploration"),
        "coverage": {
            "evaluations": total_eval, "cases": total_cases, "distinct_nontrivial": distinct,
            "rule": cfg["rule"], "samples": samples[:8], "classes": dict(sorted(labels.items())),
            "per_mode": {k: {"evaluations": v["evaluations"], "cases": v["cases"]} for k, v in per_mode.items()},
            "excluded": excluded, "corpus_cases_replayed": corpus_ran, "inconclusive": inconclusive,
            "flaky_discarded": labels.get("flaky_discarded", 0),
            "exhaustive": bool(cfg.get("exhaustive", False)),
            "known_findings_reported": len(known_lines), "missing_mandatory": missing,
        },
        "assumptions": cfg.get("assumptions", []),
        "wall_s": round(time.time() - t0, 2), "violations": len(final),
    }
    if cfg.get("exhaustive_scope"):
        ev["coverage"]["exhaustive_scope"] = cfg["exhaustive_scope"]
    if extra_evidence:
        extra_evidence(ev)
    if not args.noevidence:
        os.makedirs(os.path.join(VERIF, "evidence"), exist_ok=True)
        with open(os.path.join(VERIF, "evidence", prop + ".json"), "w") as f:
            json.dump(ev, f, indent=1)

    for l in notes:
        print(l)
    for l in known_lines:
        print(l)
    if final:
        for (dst, res) in final:
            print("VIOLATION property=%s replay=%s" % (prop, dst))
            print(("  %s: %s" % (res["kind"], res.get("detail", "")[:400])).encode("ascii", "backslashreplace").decode())
        return 1
    if broken:
        for b in broken:
            log("broken check (%s): %s" % (prop, b))
        return 2
    print("OK property=%s tier=%s evaluations=%d distinct_nontrivial=%d wall=%.1fs" %
          (prop, tier, total_eval, distinct, time.time() - t0))
    return 0


if __name__ == "__main__":
    sys.exit(main())
